"""C13 — inbound AXFR/IXFR converges to the server's zone or leaves the zone untouched.

Correspondence: dns.xfr.Inbound (working tree), driven message by message exactly like
dns.query._inbound_xfr does, vs lean/Model/Xfr.lean through the driver (state after every
process_message, outcome class, zone afterwards); make_query / extract_serial_from_query and the
RFC 1982 comparisons of dns.serial.
Oracle (on the implementation only): a valid stream leaves the zone equal to the target version
(content, TTLs, serial) and reports completion exactly at the last message; every fault of a
detectable class raises; whenever anything is raised the zone (full dump with TTLs) equals the zone
before and no write transaction is left open.
"""
from harness.core import Stalled as _Stalled
import glob
import json
import os
import signal
import socket
import struct

import asyncio

import dns.asyncquery
import dns.btreezone
import dns.exception
import dns.flags
import dns.message
import dns.name
import dns.query
import dns.rcode
import dns.rdata
import dns.rdataclass
import dns.rdatatype
import dns.rrset
import dns.serial
import dns.transaction
import dns.update
import dns.tsigkeyring
import dns.versioned
import dns.xfr
import dns.zone

from harness.core import VERIF, Ctx, enc_labels

RULE = (
    "cases come from one SplitMix64 state: chains of 1-5 valid zone versions over <= 12 owner names (apex, wildcard, "
    "delegation + glue, mixed-case spellings, RRSIG with covers, NSEC, CNAME nodes, A<->CNAME replacements, TTL changes, "
    "out-of-zone glue), AXFR with an explicit serial= (equal to / behind / ahead of / 2^31 away from the server's, 0) and the "
    "classic dns.zone.from_xfr(dns.query.xfr(...)) route, serials from a pool around 0, 2^31 and 2^32-1 with RFC 1982 wrap-around; streams = AXFR, IXFR "
    "(multi-step), AXFR-style answer to IXFR, up-to-date, UDP IXFR and its truncated form; every chunking of short "
    "streams, random chunkings (with empty messages) of long ones; every single fault (drop, duplicate, swap, truncate, "
    "corrupt SOA serial / owner, whole difference sequence missing, rcode, question name/type, wrong base serial, "
    "backwards serial, surplus after the final SOA, constructor misuse) at every position; dns.query.inbound_xfr with "
    "scripted sockets (UDP first, UseTCP retry, ONLY, NEVER, supplied / derived / malformed query); targets plain / "
    "versioned / B-tree zone x relativize; the way the block is left when the messages run out: an exception as in "
    "dns.query._inbound_xfr, the caller leaving normally, the caller raising its own exception (at every cut point).  "
    "Every case is rendered to wire and read back the way "
    "dns.query._inbound_xfr reads (from_wire xfr=True, one_rr_per_rrset only for IXFR) before it reaches Inbound, and the "
    "model reads the same wire-order records with its own parser (c13.parse ties the two); a sample is also fed as "
    "hand-built messages and through dns.query._inbound_xfr with a scripted socket.  Surplus after the final SOA includes "
    "copies of earlier records of the message, new rdata for an (owner, type) seen earlier in it, and copies of the SOA. "
    "Also: Inbound constructed by keywords / defaults / int or text rdtype, the asyncio twin dns.asyncquery._inbound_xfr, "
    "a foreign BaseException raised inside process_message, feeding past the end, one ~1700-name transfer with a message "
    "over 0x8000 octets, TTL 0 and 2^31-1, all six Serial relations.  "
    "A case is non-trivial if its key (stream, chunking, fault, target kind) is new"
)
TRUSTED_BASE = [
    "names reach the model lower-cased by the driver (the library's case-insensitive Name equality is structural equality in the model)",
    "message rendering and rdata/name wire codecs (dns.message, C03/C02/C01); what from_wire does to the *order and grouping* of the answer records of a transfer message is modelled (parseAnswer) and tied",
    "TTLs above 2^31-1 (read as 0 by from_wire) are not generated",
]
ASSUMPTIONS = [
    "the record class is outside the Lean model (zone = set of (owner, type+covers, rdata, ttl)); wrong-class records are checked by the direct oracle only (ValueError, zone untouched)",
    "generated versions are valid zones (one TTL per rrset, a CNAME never next to other data, singleton types hold one rdata); faulty streams may break that on the way and the model follows dns.node's exclusion and dns.rdataset's TTL/singleton rules",
    "TSIG on transfers and timeouts are outside the model; end of stream is modelled as EOFError",
    "faults that are undetectable by construction of the protocol (e.g. a dropped non-SOA record of an AXFR) must only be atomic and agree with the model; only the detectable classes named in the theorems must raise",
]

IN = dns.rdataclass.IN
SOA = dns.rdatatype.SOA
AXFR = dns.rdatatype.AXFR
IXFR = dns.rdatatype.IXFR
ZK = {"plain": dns.zone.Zone, "versioned": dns.versioned.Zone, "btree": dns.btreezone.Zone}
D11_SIG = "C13/process_message/error-after-commit/surplus-after-final-SOA-in-same-message"
SERIAL_POOL = [0, 1, 2, 100, 2**31 - 2, 2**31 - 1, 2**31, 2**31 + 1, 2**32 - 3, 2**32 - 2, 2**32 - 1, 20240101]


class Hang(BaseException):
    pass


class CallerStop(Exception):
    """an exception of the caller's own, raised inside the `with Inbound(...)` block"""


def _alarm(signum, frame):
    raise Hang()


# ------------------------------------------------------------------------------------------------
# records: [abs owner text, ttl, rdtype text, rdata text (absolute names)]
# ------------------------------------------------------------------------------------------------
_DIG = {}


def digest(rd, origin):
    """rd.to_digestable(origin), cached per rdata object (rdatas are immutable; the object is kept alive by the
    cache entry so its id cannot be reused)"""
    k = (id(rd), id(origin))
    v = _DIG.get(k)
    if v is None:
        if len(_DIG) > 300000:
            _DIG.clear()
        v = (rd, rd.to_digestable(origin))
        _DIG[k] = v
    return v[1]


def rclass(r):
    """class of a record: IN unless a fifth element says otherwise (wrong-class fault)"""
    return dns.rdataclass.from_text(r[4]) if len(r) > 4 else IN


class World:
    """objects of one case: origin, relativity, cached rrsets, interning of names and rdatas"""

    def __init__(self, origin_text: str, rel: bool):
        self.origin = dns.name.from_text(origin_text)
        self.rel = rel
        self.eff = dns.name.empty if rel else self.origin
        self.cache = {}
        self.names = []  # canonical (lower-cased) names in the zone's relativity
        self.name_idx = {}
        self.rd_ids = {}
        self.rdk = {}
        self.nidx(self.eff)

    def nidx(self, n: dns.name.Name) -> int:
        k = n.canonicalize()
        i = self.name_idx.get(k)
        if i is None:
            i = len(self.names)
            self.names.append(k)
            self.name_idx[k] = i
        return i

    def rdkey(self, rdtype, covers, rd) -> str:
        """(type key, serial, body id) of an rdata as the model sees it"""
        hit = self.rdk.get(id(rd))
        if hit is not None:
            return hit[1]
        tk = int(rdtype) + 65536 * int(covers)
        if rdtype == SOA:
            serial = rd.serial
            w = rd.replace(serial=0).to_digestable(self.origin)
        else:
            serial = 0
            w = digest(rd, self.origin)
        b = self.rd_ids.setdefault((tk, w), len(self.rd_ids))
        if len(self.rdk) > 200000:
            self.rdk.clear()
        self.rdk[id(rd)] = (rd, (tk, f"{serial}.{b}"))  # (the entry keeps rd alive: its id is not reused)
        return tk, f"{serial}.{b}"

    def rec(self, r):
        """(owner in zone relativity, ttl, rdata in zone relativity) of a record, cached"""
        k = tuple(r)
        v = self.cache.get(k)
        if v is None:
            name = dns.name.from_text(r[0], None)
            rd = dns.rdata.from_text(rclass(r), r[2], r[3], origin=self.origin, relativize=self.rel, relativize_to=self.origin)
            if self.rel and name.is_subdomain(self.origin):
                name = name.relativize(self.origin)
            v = (name, int(r[1]), rd)
            self.cache[k] = v
        return v

    def abs_rrset(self, r):
        """one-record rrset with absolute names, as a server renders it (cached; to_wire does not mutate it)"""
        k = ("abs",) + tuple(r)
        v = self.cache.get(k)
        if v is None:
            v = dns.rrset.from_rdata(dns.name.from_text(r[0], None), int(r[1]), dns.rdata.from_text(rclass(r), r[2], r[3]))
            self.cache[k] = v
        return v

    def enc_rec(self, r) -> str:
        """a record in wire order, as the model's parser input"""
        k = ("enc",) + tuple(r)
        v = self.cache.get(k)
        if v is None:
            name, ttl, rd = self.rec(r)
            tk, d = self.rdkey(rd.rdtype, rd.covers(), rd)
            v = f"{self.nidx(name)}:{tk}:{ttl}:{d}"
            self.cache[k] = v
        return v

    def enc_wire_msg(self, md, m) -> str:
        q = "-"
        if m.question:
            q = f"{self.nidx(m.question[0].name)}:{int(m.question[0].rdtype)}"
        an = ";".join(self.enc_rec(r) for g in md["an"] for r in g) or "-"
        return f"{m.rcode()}/{q}/{an}"

    def rrset(self, group):
        name, ttl, rd = self.rec(group[0])
        rs = dns.rrset.RRset(name, rclass(group[0]), rd.rdtype, rd.covers())
        rs.update_ttl(ttl)
        for r in group:
            _, t, d = self.rec(r)
            rs.add(d, t)
        return rs

    # ---- protocol encodings
    def enc_rrset(self, rs) -> str:
        i = self.nidx(rs.name)
        ds = []
        tk = int(rs.rdtype) + 65536 * int(rs.covers)
        for rd in rs:
            tk, d = self.rdkey(rs.rdtype, rs.covers, rd)
            ds.append(d)
        return f"{i}:{tk}:{int(rs.ttl)}:{','.join(ds)}"

    def enc_msg(self, m) -> str:
        q = "-"
        if m.question:
            q = f"{self.nidx(m.question[0].name)}:{int(m.question[0].rdtype)}"
        an = ";".join(self.enc_rrset(rs) for rs in m.answer) or "-"
        return f"{m.rcode()}/{q}/{an}"

    def zone_keys(self, zone):
        out = set()
        for name, node in zone.nodes.items():
            i = self.nidx(name)
            for rds in node.rdatasets:
                for rd in rds:
                    tk, d = self.rdkey(rds.rdtype, rds.covers, rd)
                    out.add((i, tk, int(rds.ttl), int(d.split(".")[0]), int(d.split(".")[1])))
        return out

    def enc_keys(self, ks) -> str:
        return ";".join(f"{a}:{b}:{t}:{c}.{d}" for a, b, t, c, d in sorted(ks)) or "-"

    def enc_names(self) -> str:
        return ";".join(enc_labels(n.labels) for n in self.names)


def full_dump(zone, origin):
    """content with TTLs, independent of relativity and spelling (rdata in the library's own canonical
    form `to_digestable`, which is what its rdata equality compares)"""
    out = set()
    for name, node in zone.nodes.items():
        n = name.derelativize(origin).canonicalize().to_text()
        for rds in node.rdatasets:
            for rd in rds:
                out.add((n, int(rds.rdtype), int(rds.covers), int(rds.ttl), digest(rd, origin)))
    return out


def records_dump(w: World, recs):
    out = set()
    for r in recs:
        name, ttl, rd = w.rec(r)
        n = name.derelativize(w.origin).canonicalize().to_text()
        out.add((n, int(rd.rdtype), int(rd.covers()), ttl, digest(rd, w.origin)))
    return out


def make_zone(w: World, zk: str, recs, no_origin=False):
    z = ZK[zk](None if no_origin else w.origin, relativize=w.rel)
    if recs:
        with z.writer(True) as txn:
            for r in recs:
                name, ttl, rd = w.rec(r)
                txn.add(name, ttl, rd)
    return z


def build_messages(w: World, case):
    """the dns.message objects handed to process_message, and (for via=sock) the wire forms"""
    is_ixfr = case["req"]["rdtype"] == "IXFR"
    via = case.get("via", "direct")
    msgs, wires = [], []
    for i, md in enumerate(case["msgs"]):
        m = dns.message.QueryMessage(id=4660 + i)
        m.flags |= dns.flags.QR | dns.flags.AA
        if md.get("rcode", 0):
            if md["rcode"] > 15:
                m.use_edns(0)  # an extended rcode lives in the OPT record
            m.set_rcode(md["rcode"])
        if md.get("q"):
            qn = dns.name.from_text(md["q"][0], None)
            m.question = [dns.rrset.RRset(qn, IN, dns.rdatatype.from_text(md["q"][1]))]
        if via == "direct":
            if m.question and w.rel and m.question[0].name.is_subdomain(w.origin):
                m.question[0].name = m.question[0].name.relativize(w.origin)
            m.answer = [w.rrset(g) for g in md["an"]]
            msgs.append(m)
        else:
            for g in md["an"]:
                for r in g:
                    m.answer.append(w.abs_rrset(r))
            wire = m.to_wire(max_size=65535)
            wires.append(wire)
            msgs.append(dns.message.from_wire(wire, xfr=True, origin=(w.origin if w.rel else None),
                                              one_rr_per_rrset=is_ixfr))
    return msgs, wires


class FakeTCP:
    def __init__(self, wires):
        self.buf = b"".join(struct.pack("!H", len(x)) + x for x in wires)
        self.sent = b""

    def __enter__(self):
        return self

    def __exit__(self, *a):
        return False

    def connect_ex(self, address):
        return 0

    def send(self, data):
        self.sent += data
        return len(data)

    def recv(self, n):
        out, self.buf = self.buf[:n], self.buf[n:]
        return out


class FakeAsyncSock:
    """scripted dns.asyncbackend socket: `type`, and sendto/recvfrom (datagram) or sendall/recv (stream)"""

    def __init__(self, wires, udp):
        self.type = socket.SOCK_DGRAM if udp else socket.SOCK_STREAM
        self.wires = list(wires)
        self.buf = b"".join(struct.pack("!H", len(x)) + x for x in wires)

    async def sendto(self, what, destination, timeout):
        return len(what)

    async def recvfrom(self, size, timeout):
        if not self.wires:
            raise EOFError("EOF")
        return self.wires.pop(0), ("192.0.2.53", 53)

    async def sendall(self, what, timeout):
        return None

    async def recv(self, size, timeout):
        out, self.buf = self.buf[:size], self.buf[size:]
        return out


class Boom(BaseException):
    """a foreign exception raised in the middle of process_message by a hostile message object"""


class BoomRRset:
    """stands in for an rrset of the answer section; touching it raises"""

    @property
    def name(self):
        raise Boom()


class FakeUDP(socket.socket):
    """a real datagram socket object (dns.query tests isinstance/type) whose I/O is scripted"""

    def script(self, wires):
        self._wires = list(wires)

    def send(self, data, *a):
        return len(data)

    def recvfrom(self, n, *a):
        if not self._wires:
            raise EOFError("EOF")
        return self._wires.pop(0), ("192.0.2.53", 53)

    def connect_ex(self, address):
        return 0


def state_str(inb) -> str:
    g = lambda a: getattr(inb, a, "?")
    b = lambda v: "1" if v is True else "0" if v is False else "?"
    ser = g("serial")
    return f"{b(g('done'))}{b(g('incremental'))}{b(g('expecting_SOA'))}{b(g('delete_mode'))}:{'none' if ser is None else ser}:{b(g('txn') is not None)}"


def err_class(e: BaseException) -> str:
    n = type(e).__name__
    if n in ("TransferError", "FormError", "SerialWentBackwards", "UseTCP", "ValueError", "DeleteNotExact", "EOFError", "KeyError"):
        return n
    if isinstance(e, dns.exception.FormError):
        return "FormError"
    return "Foreign:" + n


def run_impl(zone, w: World, case, msgs, wires):
    """-> (trace list or None, 'ok' | 'err:Class' | 'hang', returned_true_at_index)"""
    req = case["req"]
    rdtype = dns.rdatatype.from_text(req["rdtype"])
    trace = []
    res = "ok"
    done_at = None
    signal.signal(signal.SIGALRM, _alarm)
    signal.alarm(3)
    try:
        if case.get("via") == "async":
            # the asyncio twin of the message loop, dns.asyncquery._inbound_xfr, over a scripted socket
            trace = None
            q, ser = dns.xfr.make_query(zone, serial=req["serial"])

            async def go():
                n = 0
                async for _ in dns.asyncquery._inbound_xfr(zone, FakeAsyncSock(wires, req["udp"]), q, ser, None, None):
                    n += 1
                return n
            done_at = asyncio.run(go()) - 1
        elif case.get("via") == "sock":
            trace = None
            q, ser = dns.xfr.make_query(zone, serial=req["serial"])
            if req["udp"]:
                s = FakeUDP(socket.AF_INET, socket.SOCK_DGRAM)
                s.script(wires)
            else:
                s = FakeTCP(wires)
            try:
                n = 0
                for _ in dns.query._inbound_xfr(zone, s, q, ser, None, None):
                    n += 1
                done_at = n - 1
            finally:
                if req["udp"]:
                    s.close()
        else:
            end = case.get("end", "eof")
            ctor = case.get("ctor", "pos")
            if ctor == "kw":  # keywords, in another order
                mk = lambda: dns.xfr.Inbound(is_udp=req["udp"], serial=req["serial"], rdtype=rdtype, txn_manager=zone)
            elif ctor == "int":  # the type as a plain int
                mk = lambda: dns.xfr.Inbound(zone, int(rdtype), req["serial"], req["udp"])
            elif ctor == "str":  # the type as a mnemonic: not accepted
                mk = lambda: dns.xfr.Inbound(zone, req["rdtype"], req["serial"], req["udp"])
            elif ctor == "default" and rdtype == AXFR and req["serial"] is None and not req["udp"]:
                mk = lambda: dns.xfr.Inbound(zone)  # every argument defaulted: an AXFR
            else:
                mk = lambda: dns.xfr.Inbound(zone, rdtype, req["serial"], req["udp"])
            with mk() as inb:
                it = iter(msgs)
                done = False
                i = 0
                while not done or end == "all":
                    try:
                        m = next(it)
                    except StopIteration:
                        # the messages ran out before the transfer was done
                        if end == "eof":
                            raise EOFError("EOF")  # as dns.query._inbound_xfr: reading the next message raises
                        if end == "exc":
                            raise CallerStop()  # the caller gives up with an exception of its own
                        break  # "quiet" / "all": the caller stops feeding and leaves the block normally
                    try:
                        done = inb.process_message(m)
                    except BaseException as _be:
                        if isinstance(_be, _Stalled):
                            raise
                        trace.append("!")
                        raise
                    trace.append(state_str(inb))
                    if done and done_at is None:
                        done_at = i
                    i += 1
            if end != "eof":
                res = f"left:{1 if done else 0}"
    except Hang:
        res = "hang"
    except CallerStop:
        res = "left:0"
    except BaseException as e:  # noqa: BLE001 - classified below
        if isinstance(e, _Stalled):
            raise
        res = "err:" + err_class(e)
    finally:
        signal.alarm(0)
    return trace, res, done_at


# ------------------------------------------------------------------------------------------------
# evaluation of one case
# ------------------------------------------------------------------------------------------------
class ZoneCache:
    """reuse a zone object while runs leave it untouched (it is dumped and compared after every run)"""

    def __init__(self):
        self.key = None
        self.zone = None
        self.world = None

    def get(self, case):
        key = (case["zk"], case["rel"], case["origin"], json.dumps(case["v0"]), bool(case.get("no_origin")))
        if key != self.key or self.zone is None:
            self.world = World(case["origin"], case["rel"])
            self.zone = make_zone(self.world, case["zk"], case["v0"], bool(case.get("no_origin")))
            self.key = key
        return self.world, self.zone

    def drop(self):
        self.zone = None


ZC = ZoneCache()
VARIANT = {"fix": 1}  # the model of the code as it is (surplus refused before commit, 3feda1c)


def eval_case(ctx: Ctx, c: dict, collect=None):
    k = c.get("kind", "xfr")
    if k == "xfr":
        return eval_xfr(ctx, c, collect)
    if k == "glue":
        return eval_glue(ctx, c)
    if k == "legacy":
        return eval_legacy(ctx, c)
    if k == "mkq":
        return eval_mkq(ctx, c)
    if k == "scmp":
        return eval_scmp(ctx, c)
    raise ValueError(k)


def classify_commit_then_raise(c: dict, post_dump):
    """Is an error-after-commit exactly 'surplus rrsets after the final SOA in the same message'?  Cut the
    stream after every rrset of every message: if some cut completes normally with the same resulting zone,
    and rrsets followed the cut in that message, it is."""
    for mi, md in enumerate(c["msgs"]):
        for p in range(1, len(md["an"])):
            c2 = dict(c, via="direct", msgs=[dict(x) for x in c["msgs"][: mi + 1]])
            c2["msgs"][mi] = dict(md, an=md["an"][:p])
            w = World(c["origin"], c["rel"])
            z = make_zone(w, c["zk"], c["v0"])
            try:
                msgs, wires = build_messages(w, c2)
                _, res, done_at = run_impl(z, w, c2, msgs, wires)
            except Exception:
                continue
            if res == "ok" and done_at == mi and full_dump(z, w.origin) == post_dump:
                return True
    return False


def eval_xfr(ctx: Ctx, c: dict, collect=None):
    rep = {"kind": "xfr", "case": c}
    w, zone = ZC.get(c)
    before = full_dump(zone, w.origin)
    keys_before = w.zone_keys(zone)
    try:
        msgs, wires = build_messages(w, c)
    except Exception as e:  # the harness could not even express the case: not a finding, but must be visible
        ctx.count("gen.unbuildable:" + type(e).__name__)
        return
    if c.get("boom"):
        mi, ri = c["boom"]
        msgs[mi].answer[ri] = BoomRRset()
    trace, res, done_at = run_impl(zone, w, c, msgs, wires)
    after = full_dump(zone, w.origin)
    keys_after = w.zone_keys(zone)
    locked = getattr(zone, "_write_txn", None) is not None
    exp = c.get("expect", {})
    cls = exp.get("class", "any")
    fault = exp.get("fault", "-")
    ctx.count(f"req.{c['req']['rdtype']}{'.udp' if c['req']['udp'] else ''}.{exp.get('shape', '?')}")
    ctx.count("zone." + c["zk"] + (".rel" if c["rel"] else ".abs"))
    ctx.count("via." + c.get("via", "direct"))
    ctx.count("end." + c.get("end", "eof"))
    ctx.count("fault." + fault.split("@")[0])
    ctx.count("outcome." + res)
    # ---- model line
    req = c["req"]
    fix = VARIANT["fix"]
    # the model gets what process_message gets (P=0), or — when the messages went through wire format — the
    # records in wire order, which it reads like dns.message.from_wire(xfr=True, one_rr_per_rrset=is_ixfr) (P=1/2)
    wirep = c.get("via", "direct") != "direct"
    pmode = 0 if not wirep else (2 if req["rdtype"] == "IXFR" else 1)
    has_class = any(len(r) > 4 for md in c["msgs"] for g in md["an"] for r in g) or bool(c.get("boom"))
    if c.get("boom"):
        names_first = []
    elif wirep:
        names_first = [w.enc_wire_msg(md, m) for md, m in zip(c["msgs"], msgs)]
        for j in sorted({0, len(msgs) - 1} if msgs and not has_class else ()):
            recs_j = ";".join(w.enc_rec(r) for g in c["msgs"][j]["an"] for r in g) or "-"
            parsed_j = ";".join(w.enc_rrset(rs) for rs in msgs[j].answer) or "-"
            ctx.corr(f"c13.parse one={1 if pmode == 2 else 0} N={w.enc_names()} R={recs_j}", parsed_j, c)
    else:
        names_first = [w.enc_msg(m) for m in msgs]  # interns names before the table is printed
    op = (f"c13.run fix={fix} tr={0 if trace is None else 1} P={pmode} E={c.get('end', 'eof') if c.get('via') not in ('sock', 'async') else 'eof'} o={'none' if c.get('no_origin') else enc_labels(w.eff.labels)} t={0 if c.get('ctor') == 'str' else int(dns.rdatatype.from_text(req['rdtype']))} "
          f"s={'none' if req['serial'] is None else req['serial']} u={1 if req['udp'] else 0} N=%s "
          f"Z={w.enc_keys(keys_before)} M={'|'.join(names_first) or '-'}")
    zs = "=" if keys_after == keys_before else w.enc_keys(keys_after)
    op = op % w.enc_names()
    impl = f"T={'|'.join(trace) if trace is not None else ''} R={res} Z={zs}"
    if res != "hang" and not has_class:  # the record class is outside the model: oracle only
        ctx.corr(op, impl, c)
    # ---- the property itself, on the implementation
    what = f"{c['zk']}{'/rel' if c['rel'] else ''} {req['rdtype']}{'/udp' if req['udp'] else ''} serial={req['serial']} fault={fault}: "
    if res == "hang":
        ctx.fail("C13/run/hang", what + "the transfer did not return within 3 s (writer admission blocked?)", rep)
    if res.startswith("err:Foreign"):
        ctx.count("foreign." + res)
    if c.get("end") == "all":
        # the caller kept feeding after process_message had returned True: whatever that yields (True again for an
        # empty message, FormError for one with answers), the transfer stays applied and nothing stays open
        if after != records_dump(w, exp["target"]):
            ctx.fail("C13/after-done/zone-differs", what + f"{res}: after feeding past the end the zone is not the target version", rep)
        if locked:
            ctx.fail("C13/exit/transaction-left-open", what + f"{res}: fed past the end and the zone's write transaction was left open", rep)
        if exp.get("err") and res != "err:" + exp["err"]:
            ctx.fail("C13/after-done/wrong-outcome", what + f"expected {exp['err']}, got {res}", rep)
        if not exp.get("err") and res != "left:1":
            ctx.fail("C13/after-done/wrong-outcome", what + f"expected completion, got {res}", rep)
    elif res == "left:0":
        # the caller left the with-block (normally or by its own exception) before any process_message returned
        # True: nothing may have been applied
        if after != before:
            ctx.fail("C13/exit/unfinished-transfer-applied/" + c.get("end", "?"),
                     what + f"the caller left the block ({c.get('end')}) before the transfer was done, yet the zone changed "
                     f"({len(before)} -> {len(after)} records, {len(after ^ before)} differ)", rep)
        if locked:
            ctx.fail("C13/exit/transaction-left-open", what + "left early and the zone's write transaction was left open", rep)
    elif res == "left:1":
        if locked:
            ctx.fail("C13/exit/transaction-left-open", what + "completed but the zone's write transaction was left open", rep)
    elif res != "ok":
        if after != before:
            sig = "C13/process_message/error-after-commit/other"
            if res == "err:FormError" and classify_commit_then_raise(c, after):
                sig = D11_SIG
            ctx.fail(sig, what + f"{res} was raised but the zone changed ({len(before)} -> {len(after)} records, "
                     f"{len(after ^ before)} differ): an error was reported for a transfer that was applied", rep)
        if locked:
            ctx.fail("C13/exit/transaction-left-open", what + f"{res} was raised and the zone's write transaction was left open", rep)
    else:
        if locked:
            ctx.fail("C13/exit/transaction-left-open", what + "completed but the zone's write transaction was left open", rep)
    if cls == "valid":
        target = records_dump(w, exp["target"])
        if res not in ("ok", "left:1"):
            ctx.fail("C13/valid-stream/raises/" + exp.get("shape", "?"), what + f"a valid {exp.get('shape')} stream raised {res}", rep)
        else:
            if after != target:
                only_ttl = {x[:3] + x[4:] for x in after} == {x[:3] + x[4:] for x in target}
                ctx.fail("C13/valid-stream/zone-differs/" + exp.get("shape", "?") + ("/ttl-only" if only_ttl else ""),
                         what + f"zone after a valid {exp.get('shape')} stream differs from the target version "
                         f"(missing {len(target - after)}, extra {len(after - target)})", rep)
            if trace is not None and done_at != len(msgs) - 1:
                ctx.fail("C13/valid-stream/done-early/" + exp.get("shape", "?"),
                         what + f"process_message reported completion at message {done_at} of {len(msgs)}", rep)
    elif cls == "boom":
        if not res.startswith("err:"):
            ctx.fail("C13/foreign-exception/swallowed", what + f"a BaseException raised inside process_message did not propagate ({res})", rep)
    elif cls == "must-raise":
        if res == "left:0" and not exp.get("err"):
            # a fault that only shows as "the stream ends before the transfer is done": the caller left the block
            # itself, so nothing is raised — and nothing may have been applied (checked above)
            pass
        elif res in ("ok", "left:1", "left:0"):
            ctx.fail("C13/fault-accepted/" + fault.split("@")[0], what + "a detectably malformed stream was accepted without error", rep)
        elif exp.get("err") and res != "err:" + exp["err"]:
            ctx.fail("C13/fault-wrong-error/" + fault.split("@")[0], what + f"expected {exp['err']}, got {res}", rep)
    if collect is not None:
        collect.append((res, after != before))
    if after != before or locked or res == "hang":
        ZC.drop()


def eval_legacy(ctx: Ctx, c: dict):
    """the classic route: dns.zone.from_xfr(dns.query.xfr(where, zone, "AXFR", serial=…)) with a scripted socket.
    dns.query.xfr runs an Inbound over a dummy transaction manager and always hands it a serial (0 by default)."""
    rep = {"kind": "legacy", "case": c}
    w = World(c["origin"], c["rel"])
    fake = {"req": {"rdtype": "AXFR", "serial": None, "udp": False}, "via": "wire"}
    msgs, wires = build_messages(w, dict(fake, msgs=c["msgs"]))

    def fake_make_socket(af, type, source=None):
        return FakeTCP(wires)

    saved = dns.query.make_socket
    dns.query.make_socket = fake_make_socket
    signal.signal(signal.SIGALRM, _alarm)
    signal.alarm(3)
    res, zone = "ok", None
    kw = {} if c["serial"] == "default" else {"serial": c["serial"]}
    try:
        zone = dns.zone.from_xfr(dns.query.xfr("192.0.2.53", w.origin, "AXFR", relativize=c["rel"], **kw),
                                 zone_factory=ZK[c["zk"]], relativize=c["rel"])
    except Hang:
        res = "hang"
    except BaseException as e:  # noqa: BLE001
        if isinstance(e, _Stalled):
            raise
        res = "err:" + err_class(e)
    finally:
        signal.alarm(0)
        dns.query.make_socket = saved
    ser = 0 if c["serial"] == "default" else c["serial"]
    keys = w.zone_keys(zone) if zone is not None else set()
    names_first = [w.enc_wire_msg(md, m) for md, m in zip(c["msgs"], msgs)]
    op = (f"c13.run fix=1 tr=0 P=1 E=eof o={enc_labels(w.eff.labels)} t={int(AXFR)} s={ser} u=0 N=%s Z=- "
          f"M={'|'.join(names_first) or '-'}")
    op = op % w.enc_names()
    if res != "hang":
        ctx.corr(op, f"T= R={res} Z={'=' if not keys else w.enc_keys(keys)}", c)
    exp = c.get("expect", {})
    ctx.count(f"legacy.{exp.get('what', '?')}.{res}")
    what = f"from_xfr(xfr(AXFR, serial={c['serial']})) {c['zk']}{'/rel' if c['rel'] else ''} {exp.get('what')}: "
    if res == "hang":
        ctx.fail("C13/legacy-xfr/hang", what + "did not return within 3 s", rep)
    if exp.get("class") == "valid":
        if res != "ok":
            ctx.fail("C13/legacy-xfr/valid-raises", what + f"a valid AXFR raised {res}", rep)
        elif full_dump(zone, w.origin) != records_dump(w, exp["target"]):
            ctx.fail("C13/legacy-xfr/zone-differs", what + "the zone built differs from the version sent", rep)
    elif exp.get("class") == "must-raise" and res == "ok":
        ctx.fail("C13/legacy-xfr/fault-accepted", what + "accepted without error", rep)


def legacy_cases(rng, st):
    """the classic dns.query.xfr + dns.zone.from_xfr route around a valid AXFR"""
    case, recs, o = st["case"], st["recs"], st["o"]
    # (dns.zone.from_xfr writes z.nodes directly: only the plain dns.zone.Zone supports that)
    base = {"kind": "legacy", "zk": "plain", "rel": case["rel"], "origin": o}
    tser = st["chain"][-1].serial
    for ser in ["default", rng.choice([0, tser, (tser + 1) % 2**32, 1, 2**31, 2**32 - 1])]:
        msgs = to_msgs(rng, recs, rand_sizes(rng, len(recs), empties=False), "AXFR", o)
        yield dict(base, serial=ser, msgs=msgs, expect={"class": "valid", "what": "axfr", "target": st["target"]})
    if rng.chance(1, 2):
        return
    k = rng.range(1, len(recs) - 1)
    yield dict(base, serial="default", msgs=to_msgs(rng, recs[:k], rand_sizes(rng, k, empties=False), "AXFR", o),
               expect={"class": "must-raise", "what": "axfr-truncated"})


def eval_glue(ctx: Ctx, c: dict):
    """dns.query.inbound_xfr itself, sockets scripted: which query, UDP first, TCP retry on UseTCP"""
    rep = {"kind": "glue", "case": c}
    w, zone = ZC.get(c)
    before = full_dump(zone, w.origin)
    keys_before = w.zone_keys(zone)
    qd = c["query"]
    try:
        if qd is None:
            q = None
            rdtype = dns.xfr.make_query(zone)[0].question[0].rdtype
            qenc = "none"
        else:
            q, _ = dns.xfr.make_query(zone, serial=qd["serial"])
            if qd.get("qtype"):
                q.question[0].rdtype = dns.rdatatype.from_text(qd["qtype"])
            if qd.get("strip"):
                q = dns.message.make_query(w.origin, "IXFR")  # an IXFR query that announces no serial
            rdtype = q.question[0].rdtype
            auth = "none"
            for rs in q.authority:
                if rs.rdtype == SOA:
                    auth = str(rs[0].serial)
            qenc = f"{int(rdtype)}:{auth}"
    except Exception as e:
        ctx.count("gen.unbuildable:" + type(e).__name__)
        return
    is_ixfr = rdtype == IXFR
    fake = {"req": {"rdtype": "IXFR" if is_ixfr else "AXFR", "serial": None, "udp": False}, "via": "wire"}
    umsgs, uwires = build_messages(w, dict(fake, msgs=c["udp"]))
    tmsgs, twires = build_messages(w, dict(fake, msgs=c["tcp"]))
    used = {"udp": 0, "tcp": 0}

    def fake_make_socket(af, type, source=None):
        if type == socket.SOCK_DGRAM:
            used["udp"] += 1
            s = FakeUDP(socket.AF_INET, socket.SOCK_DGRAM)
            s.script(uwires)
            return s
        used["tcp"] += 1
        return FakeTCP(twires)

    saved = dns.query.make_socket
    dns.query.make_socket = fake_make_socket
    signal.signal(signal.SIGALRM, _alarm)
    signal.alarm(3)
    res = "ok"
    try:
        dns.query.inbound_xfr("192.0.2.53", zone, query=q,
                              udp_mode=c["mode"] if c.get("mode_int") else dns.query.UDPMode(c["mode"]))
    except Hang:
        res = "hang"
    except BaseException as e:  # noqa: BLE001
        if isinstance(e, _Stalled):
            raise
        res = "err:" + err_class(e)
    finally:
        signal.alarm(0)
        dns.query.make_socket = saved
    after = full_dump(zone, w.origin)
    keys_after = w.zone_keys(zone)
    locked = getattr(zone, "_write_txn", None) is not None
    u = "|".join(w.enc_wire_msg(md, m) for md, m in zip(c["udp"], umsgs)) or "-"
    t = "|".join(w.enc_wire_msg(md, m) for md, m in zip(c["tcp"], tmsgs)) or "-"
    op = (f"c13.glue o={enc_labels(w.eff.labels)} q={qenc} mode={c['mode']} N=%s Z={w.enc_keys(keys_before)} U={u} T={t}")
    op = op % w.enc_names()
    zs = "=" if keys_after == keys_before else w.enc_keys(keys_after)
    if res != "hang":
        ctx.corr(op, f"R={res} Z={zs}", c)
    exp = c.get("expect", {})
    ctx.count(f"glue.{exp.get('what', '?')}.{res}")
    what = f"inbound_xfr {c['zk']}{'/rel' if c['rel'] else ''} mode={c['mode']} {exp.get('what')}: "
    if res == "hang":
        ctx.fail("C13/inbound_xfr/hang", what + "did not return within 3 s", rep)
    if res != "ok" and after != before:
        ctx.fail("C13/inbound_xfr/error-after-commit", what + f"{res} was raised but the zone changed", rep)
    if locked:
        ctx.fail("C13/inbound_xfr/transaction-left-open", what + f"{res}: the zone's write transaction was left open", rep)
    if exp.get("class") == "valid":
        if res != "ok":
            ctx.fail("C13/inbound_xfr/valid-raises/" + exp.get("what", "?"), what + f"raised {res}", rep)
        elif after != records_dump(w, exp["target"]):
            ctx.fail("C13/inbound_xfr/zone-differs/" + exp.get("what", "?"), what + "zone differs from the target version", rep)
        if exp.get("udp_used") is not None and (used["udp"] > 0) != exp["udp_used"]:
            ctx.fail("C13/inbound_xfr/udp-attempt/" + exp.get("what", "?"),
                     what + f"UDP attempts={used['udp']} (udp_mode={c['mode']!r} as {'int' if c.get('mode_int') else 'enum'}), expected none", rep)
        if exp.get("tcp_used") is not None and (used["tcp"] > 0) != exp["tcp_used"]:
            ctx.fail("C13/inbound_xfr/retry/" + exp.get("what", "?"),
                     what + f"TCP attempts={used['tcp']} UDP attempts={used['udp']}, expected tcp_used={exp['tcp_used']}", rep)
    elif exp.get("class") == "must-raise":
        if res == "ok":
            ctx.fail("C13/inbound_xfr/fault-accepted/" + exp.get("what", "?"), what + "accepted without error", rep)
        elif exp.get("err") and res != "err:" + exp["err"]:
            ctx.fail("C13/inbound_xfr/fault-wrong-error/" + exp.get("what", "?"), what + f"expected {exp['err']}, got {res}", rep)
    if after != before or locked or res == "hang":
        ZC.drop()


def glue_cases(rng, st):
    """dns.query.inbound_xfr around a valid IXFR chain"""
    case, recs, o = st["case"], st["recs"], st["o"]
    base = {"kind": "glue", "zk": case["zk"], "rel": case["rel"], "origin": o, "v0": case["v0"]}
    serial = case["req"]["serial"]
    full = to_msgs(rng, recs, [len(recs)], "IXFR", o)
    trunc = to_msgs(rng, recs[:1], [1], "IXFR", o)
    tcp = to_msgs(rng, recs, rand_sizes(rng, len(recs), empties=False), "IXFR", o)
    tgt = st["target"]
    qs = [{"serial": serial}] + ([None] if serial != 0 else [])
    for q in qs:
        def mk(mode, udp, tcpm, exp):
            return dict(base, query=q, mode=mode, udp=udp, tcp=tcpm, expect=exp, mode_int=rng.chance(1, 3))
        yield mk(1, trunc, tcp, {"class": "valid", "what": "usetcp-then-tcp", "target": tgt, "tcp_used": True})
        yield mk(2, trunc, tcp, {"class": "must-raise", "what": "usetcp-only", "err": "UseTCP"})
        yield mk(rng.choice([1, 2]), full, tcp, {"class": "valid", "what": "udp-complete", "target": tgt, "tcp_used": False})
        yield mk(0, trunc, tcp, {"class": "valid", "what": "never-udp", "target": tgt, "tcp_used": True, "udp_used": False})
        bad = [dict(m) for m in trunc]
        bad[0]["rcode"] = 5
        yield mk(1, bad, tcp, {"class": "must-raise", "what": "udp-refused-no-retry", "err": "TransferError"})
        yield mk(1, [], tcp, {"class": "must-raise", "what": "udp-silent"})
        yield mk(1, trunc, tcp[:-1], {"class": "must-raise", "what": "tcp-ends-early"})
        ax = axfr_stream(rng, st["chain"][-1])
        yield mk(1, trunc, to_msgs(rng, ax, rand_sizes(rng, len(ax), empties=False), "IXFR", o),
                 {"class": "valid", "what": "usetcp-then-axfr-style", "target": tgt, "tcp_used": True})
    ax = axfr_stream(rng, st["chain"][-1])
    axm = to_msgs(rng, ax, rand_sizes(rng, len(ax), empties=False), "AXFR", o)
    yield dict(base, query={"serial": None}, mode=rng.choice([0, 1, 2]), udp=trunc, tcp=axm,
               expect={"class": "valid", "what": "axfr-query", "target": tgt, "tcp_used": True, "udp_used": False})
    yield dict(base, query={"serial": serial or 1, "qtype": "SOA"}, mode=1, udp=trunc, tcp=tcp,
               expect={"class": "must-raise", "what": "query-not-xfr", "err": "ValueError"})
    yield dict(base, query={"serial": serial or 1, "strip": True}, mode=1, udp=trunc, tcp=tcp,
               expect={"class": "must-raise", "what": "ixfr-query-without-soa", "err": "KeyError"})


def eval_mkq(ctx: Ctx, c: dict):
    rep = {"kind": "mkq", "case": c}
    w = World(c["origin"], c["rel"])
    zone = make_zone(w, c["zk"], c["v0"])
    ser = c["serial"]
    if isinstance(ser, dict):  # a serial that is not an int, as {"py": "str:5"} / {"py": "float:2.5"}
        kind, _, val = ser["py"].partition(":")
        ser = val if kind == "str" else float(val)
    try:
        q, s = dns.xfr.make_query(zone, serial=ser)
        impl = f"ok {int(q.question[0].rdtype)} {'none' if s is None else s}"
    except ValueError:
        q, impl = None, "err:ValueError"
    except BaseException as e:  # noqa: BLE001
        if isinstance(e, _Stalled):
            raise
        q, impl = None, "err:Foreign:" + type(e).__name__
    ks = w.zone_keys(zone)
    if q is not None:
        # the other options of make_query shape the query only: same type and serial, and they arrive in the query
        kr = dns.tsigkeyring.from_text({"k.": "MTIzNDU2Nzg5MDEyMzQ1Ng=="})
        try:
            q2, s2 = dns.xfr.make_query(zone, ser, 0, 0x8000, 1232, 4096, None, kr, dns.name.from_text("k."))
            x2 = dns.xfr.extract_serial_from_query(q2)
            if (q2.question[0].rdtype, s2, x2) != (q.question[0].rdtype, s, s) or q2.edns != 0 or q2.payload != 1232 \
                    or q2.keyname != dns.name.from_text("k.") or not (q2.ednsflags & 0x8000) or q.edns != -1 or q.keyring is not None:
                ctx.fail("C13/make_query/options", f"make_query(serial={ser}) with EDNS/TSIG options: type/serial changed or "
                         f"options not carried (edns={q2.edns} payload={q2.payload} keyname={q2.keyname})", rep)
        except Exception as e:  # noqa: BLE001
            ctx.fail("C13/make_query/options", f"make_query(serial={ser}) with EDNS/TSIG options raised {type(e).__name__}", rep)
    senc = "none" if ser is None else (ser if isinstance(ser, int) and not isinstance(ser, bool) else "bad")
    ctx.corr(f"c13.mkq o={enc_labels(w.eff.labels)} N={w.enc_names()} Z={w.enc_keys(ks)} s={senc}", impl, c)
    ctx.count("mkq." + impl.split(" ")[0])
    if senc == "bad" and impl != "err:ValueError":
        ctx.fail("C13/make_query/non-int-serial", f"make_query(serial={ser!r}) -> {impl}, expected ValueError", rep)
    # extract_serial_from_query refuses what is not a query message
    try:
        # (a plain Message that looks like an AXFR query, an UPDATE message, something that is no message at all)
        nq = dns.message.Message(id=1)
        nq.question = [dns.rrset.RRset(w.origin, IN, AXFR)]
        for obj in (nq, dns.update.UpdateMessage(w.origin), "example."):
            try:
                dns.xfr.extract_serial_from_query(obj)
                raise AssertionError("accepted " + type(obj).__name__)
            except ValueError:
                pass
        raise ValueError("all three refused")
    except ValueError:
        nimpl = "err:ValueError"
    except BaseException as e:  # noqa: BLE001
        if isinstance(e, _Stalled):
            raise
        nimpl = "err:Foreign:" + type(e).__name__
    ctx.corr("c13.xs notquery none", nimpl, c)
    if nimpl != "err:ValueError":
        ctx.fail("C13/extract_serial/not-a-query", f"extract_serial_from_query(non-query object) -> {nimpl}, expected ValueError", rep)
    if q is not None:
        try:
            x = dns.xfr.extract_serial_from_query(q)
            ximpl = f"ok {'none' if x is None else x}"
        except BaseException as e:  # noqa: BLE001
            if isinstance(e, _Stalled):
                raise
            x, ximpl = "raised", "err:" + type(e).__name__
        auth = "none"
        for rs in q.authority:
            if rs.rdtype == SOA:
                auth = str(rs[0].serial)
        ctx.corr(f"c13.xs {int(q.question[0].rdtype)} {auth}", ximpl, c)
        if x != s:
            ctx.fail("C13/make_query/extract-differs", f"make_query(serial={ser}) announced {s} but extract_serial_from_query returns {x}", rep)
        # the serial announced must be the zone's when asked for (serial=0)
        if ser == 0:
            zs = [k[3] for k in ks if k[0] == 0 and k[1] == 6]
            want = zs[0] if zs else None
            if s != want:
                ctx.fail("C13/make_query/serial-differs", f"make_query(serial=0) on a zone with serial {want} announced {s}", rep)


def eval_scmp(ctx: Ctx, c: dict):
    a, b = c["a"], c["b"]
    lt = dns.serial.Serial(a) < b
    gt = dns.serial.Serial(a) > b
    sa = dns.serial.Serial(a)
    eq, ne, le, ge = sa == b, sa != b, sa <= b, sa >= b
    ctx.corr(f"c13.scmp {a} {b}", "".join(str(int(bool(x))) for x in (lt, gt, eq, ne, le, ge)), c)
    rep = {"kind": "scmp", "case": c}
    sb = dns.serial.Serial(b)
    if bool(eq) == bool(ne) or bool(eq) != ((a - b) % 2**32 == 0):
        ctx.fail("C13/serial/eq-ne", f"Serial({a}) vs {b}: eq={eq} ne={ne}", rep)
    if bool(le) != (bool(lt) or bool(eq)) or bool(ge) != (bool(gt) or bool(eq)):
        ctx.fail("C13/serial/le-ge", f"Serial({a}) vs {b}: lt={lt} le={le} gt={gt} ge={ge} eq={eq}", rep)
    if (b == sa) != bool(eq) or (sa == sb) != bool(eq) or (sb == sa) != bool(eq) or (sa < sb) != bool(lt) or (sb > sa) != bool(lt):
        ctx.fail("C13/serial/symmetry", f"Serial({a}) vs Serial({b}): == / < / > disagree between int and Serial operands or sides", rep)
    if bool(eq) and hash(sa) != hash(sb):
        ctx.fail("C13/serial/hash", f"Serial({a}) == Serial({b}) but the hashes differ", rep)
    if bool(eq) and len({sa, sb}) != 1:
        ctx.fail("C13/serial/hash", f"Serial({a}) == Serial({b}) but a set holds both", rep)
    # RFC 1982 3.2, independently
    i1, i2 = a % 2**32, b % 2**32
    rlt = (i1 < i2 and i2 - i1 < 2**31) or (i1 > i2 and i1 - i2 > 2**31)
    rgt = (i1 < i2 and i2 - i1 > 2**31) or (i1 > i2 and i1 - i2 < 2**31)
    if bool(lt) != rlt or bool(gt) != rgt:
        ctx.fail("C13/serial/rfc1982", f"Serial({a}) vs {b}: lt={lt} gt={gt}, RFC 1982 says lt={rlt} gt={rgt}", {"kind": "scmp", "case": c})


# ------------------------------------------------------------------------------------------------
# generators
# ------------------------------------------------------------------------------------------------
ORIGINS = ["example.", "Example.COM.", "sub.Zone.test.", "x."]
REL_NAMES = ["www", "WwW", "a", "b.a", "*.w", "ns1", "ns2", "mail", "deleg", "glue.deleg", "x.y.z", "_srv._tcp", "long-label-0123456789", "q"]


def soa_text(o, serial, var=0):
    return f"ns1.{o} admin.{o} {serial} {3600 + var} 600 86400 300"


def gen_rdata(rng, o, t):
    if t == "A":
        return f"192.0.2.{rng.range(1, 6)}"
    if t == "AAAA":
        return f"2001:db8::{rng.range(1, 6)}"
    if t == "NS":
        return rng.choice([f"ns1.{o}", f"ns2.{o}", "ns.other.test.", f"NS3.{o}"])
    if t == "MX":
        return f"{rng.choice([10, 20])} " + rng.choice([f"mail.{o}", "mx.other.test."])
    if t == "TXT":
        return '"' + rng.choice(["t1", "t2", "hello world", "v=spf1 -all"]) + '"'
    if t == "RRSIG":
        return f"{rng.choice(['A', 'NS'])} 8 2 300 20300101000000 20200101000000 {rng.range(1, 3)} {o} AAAA"
    if t == "CNAME":
        return rng.choice([f"target{rng.range(1, 3)}.{o}", "alias.other.test.", f"www.{o}"])
    if t == "NSEC":
        return f"{rng.choice(['a', 'z', 'm'])}.{o} A RRSIG NSEC"
    raise ValueError(t)


class Version:
    """content of one zone version: {(lower owner text, type text): (ttl, [rdata text])}, spelling of owners, soa"""

    def __init__(self, o):
        self.o = o
        self.sets = {}
        self.spell = {}
        self.serial = 0
        self.soavar = 0
        self.soattl = 300

    def copy(self):
        v = Version(self.o)
        v.sets = {k: (t, list(r)) for k, (t, r) in self.sets.items()}
        v.spell = dict(self.spell)
        v.serial, v.soavar, v.soattl = self.serial, self.soavar, self.soattl
        return v

    def soa(self):
        return [self.o, self.soattl, "SOA", soa_text(self.o, self.serial, self.soavar)]

    def records(self, with_soa=True):
        out = [self.soa()] if with_soa else []
        for (ln, t), (ttl, rds) in self.sets.items():
            for rd in rds:
                out.append([self.spell.get(ln, ln), ttl, t, rd])
        return out


def own(rng, o, names):
    r = rng.choice(names)
    return o if r == "@" else f"{r}.{o}"


def mutate(rng, v: Version, names, nchanges):
    v = v.copy()
    types = ["A", "A", "AAAA", "NS", "MX", "TXT", "RRSIG", "CNAME", "CNAME", "NSEC"]
    for _ in range(nchanges):
        m = rng.below(7)
        keys = [k for k in v.sets if not (k[0] == v.o.lower() and k[1] == "NS")]
        if m <= 2 or not keys:
            n = own(rng, v.o, names)
            t = rng.choice(types)
            if t == "CNAME" and n.lower() == v.o.lower():
                t = "A"
            k = (n.lower(), t)
            v.spell.setdefault(n.lower(), n)
            ttl, rds = v.sets.get(k, (rng.choice([60, 300, 3600, 300, 0, 2**31 - 1]), []))
            rd = gen_rdata(rng, v.o, t)
            if t in ("CNAME", "NSEC"):
                rds = [rd]  # singleton types
            elif rd not in rds:
                rds = rds + [rd]
            # a valid zone never holds a CNAME next to other data (NSEC may stay)
            if t == "CNAME":
                for k2 in [k2 for k2 in v.sets if k2[0] == n.lower() and k2[1] not in ("CNAME", "NSEC")]:
                    del v.sets[k2]
            elif t != "NSEC":
                v.sets.pop((n.lower(), "CNAME"), None)
            v.sets[k] = (ttl, rds)
        elif m == 3:
            k = rng.choice(keys)
            ttl, rds = v.sets[k]
            if len(rds) > 1:
                rds = list(rds)
                rds.pop(rng.below(len(rds)))
                v.sets[k] = (ttl, rds)
            else:
                del v.sets[k]
        elif m == 4:
            del v.sets[rng.choice(keys)]
        elif m == 5:
            k = rng.choice(keys)
            ttl, rds = v.sets[k]
            v.sets[k] = (rng.choice([60, 300, 3600, 86400, 0, 2**31 - 1]), rds)
        else:
            n = rng.choice(keys)[0]
            for k in [k for k in keys if k[0] == n]:
                del v.sets[k]
    return v


def gen_chain(rng, steps, small=False):
    o = rng.choice(ORIGINS)
    names = ["@"] + rng.shuffle(REL_NAMES)[: (2 if small else rng.range(2, 11))]
    v = Version(o)
    v.serial = rng.choice(SERIAL_POOL)
    v.spell[o.lower()] = o
    v.sets[(o.lower(), "NS")] = (300, [f"ns1.{o}"] + ([f"ns2.{o}"] if rng.chance(1, 2) else []))
    v = mutate(rng, v, names, 1 if small else rng.range(1, 14))
    chain = [v]
    budget = 2**31 - 1
    for _ in range(steps):
        nv = mutate(rng, chain[-1], names, rng.choice([0, 1, 1, 2]) if small else rng.choice([0, 1, 2, 3, 5, 8]))
        inc = min(rng.choice([1, 1, 2, 1000, 2**30, 2**31 - 1]), budget - (steps - len(chain)))
        inc = max(1, inc)
        budget -= inc
        nv.serial = (chain[-1].serial + inc) % 2**32
        if rng.chance(1, 5):
            nv.soavar = rng.below(3)
        if rng.chance(1, 8):
            nv.soattl = rng.choice([300, 600])
        chain.append(nv)
    return o, chain


def rkey(r):
    return (r[0].lower(), r[1], r[2], r[3])


def diff(a: Version, b: Version):
    ra = {rkey(r): r for r in a.records(False)}
    rb = {rkey(r): r for r in b.records(False)}
    dels = [r for k, r in ra.items() if k not in rb]
    adds = [r for k, r in rb.items() if k not in ra]
    return dels, adds


def respell(rng, r):
    if rng.chance(1, 6):
        return [r[0].swapcase() if rng.chance(1, 2) else r[0].upper(), r[1], r[2], r[3]]
    return r


OOZ = [["ns.other.test.", 300, "A", "192.0.2.99"], ["other.test.", 300, "NS", "ns.other.test."], ["test.", 60, "TXT", '"ooz"']]


def ixfr_stream(rng, chain, ooz=False):
    """(records, positions of SOAs, index ranges of the delete sections)"""
    recs = [chain[-1].soa()]
    delranges = []
    for a, b in zip(chain, chain[1:]):
        dels, adds = diff(a, b)
        dels, adds = rng.shuffle(dels), rng.shuffle(adds)
        if ooz and rng.chance(1, 3):
            adds.insert(rng.below(len(adds) + 1), rng.choice(OOZ))
        if ooz and rng.chance(1, 6) and dels:
            dels.insert(rng.range(1, len(dels)), rng.choice(OOZ))
        recs.append(a.soa())
        delranges.append((len(recs), len(recs) + len(dels)))
        recs += [respell(rng, r) for r in dels]
        recs.append(b.soa())
        recs += [respell(rng, r) for r in adds]
    recs.append(chain[-1].soa())
    return recs, delranges


def axfr_stream(rng, v: Version, ooz=False):
    body = rng.shuffle(v.records(False))
    # keep the rrsets of one owner roughly together half of the time (as servers do)
    if rng.chance(1, 2):
        body.sort(key=lambda r: r[0].lower())
    if ooz and rng.chance(1, 3) and body:
        body.insert(rng.range(1, len(body)), rng.choice(OOZ))
    return [v.soa()] + [respell(rng, r) for r in body] + [v.soa()]


def chunk(recs, sizes):
    out, i = [], 0
    for s in sizes:
        out.append(recs[i:i + s])
        i += s
    assert i == len(recs)
    return out


def all_compositions(n):
    if n == 0:
        yield []
        return
    for mask in range(1 << (n - 1)):
        sizes, cur = [], 1
        for i in range(n - 1):
            if mask >> i & 1:
                sizes.append(cur)
                cur = 1
            else:
                cur += 1
        sizes.append(cur)
        yield sizes


def rand_sizes(rng, n, empties=True):
    if n == 0:
        return []
    mode = rng.below(4)
    if mode == 0:
        return [n]
    sizes = []
    left = n
    while left:
        s = min(left, rng.choice([1, 1, 2, 3, 5, 9]) if mode != 1 else 1)
        sizes.append(s)
        left -= s
        if empties and rng.chance(1, 12):
            sizes.append(0)
    if sizes and sizes[-1] == 0:
        sizes.pop()
    return sizes


def to_msgs(rng, recs, sizes, rdtype, origin, group=False, question=None):
    """message dicts; question: None (random), 'all', 'first', 'none'"""
    qmode = question or rng.choice(["all", "first", "none"])
    msgs = []
    for i, part in enumerate(chunk(recs, sizes)):
        an = []
        for r in part:
            if (group and an and an[-1][0][0].lower() == r[0].lower() and an[-1][0][2] == r[2] and r[2] != "SOA"
                    and an[-1][0][1] == r[1] and (r[2] != "RRSIG" or an[-1][0][3].split()[0] == r[3].split()[0])
                    and all(rkey(x) != rkey(r) for x in an[-1])):
                an[-1] = an[-1] + [r]
            else:
                an.append([r])
        q = None
        if qmode == "all" or (qmode == "first" and i == 0):
            q = [origin.swapcase() if rng.chance(1, 5) else origin, rdtype]
        msgs.append({"rcode": 0, "q": q, "an": an})
    return msgs


def base_case(rng, o, v0recs, rdtype, serial, udp, zk=None, rel=None):
    zk = zk or rng.choice(["plain", "plain", "versioned", "versioned", "btree"])
    return {"kind": "xfr", "zk": zk, "rel": rng.chance(1, 2) if rel is None else rel, "origin": o, "v0": v0recs,
            "req": {"rdtype": rdtype, "serial": serial, "udp": udp}}


def with_msgs(case, msgs, expect, via="direct"):
    c = dict(case)
    c["msgs"] = msgs
    c["expect"] = expect
    c["via"] = via
    return c


def flat(msgs):
    return [r for m in msgs for g in m["an"] for r in g]


def gen_stream(rng, small=False):
    """one valid stream with everything needed to derive chunkings and faults from it"""
    shape = rng.choice(["axfr", "axfr", "ixfr", "ixfr", "ixfr", "ixfr", "axfr-style", "uptodate", "udp-ixfr"])
    steps = rng.range(1, 2) if small else rng.range(1, 5)
    o, chain = gen_chain(rng, steps, small)
    ooz = (not small) and rng.chance(1, 3)
    v0, vn = chain[0], chain[-1]
    delranges = []
    if shape == "axfr":
        start = rng.choice(["v0", "empty", "v0"])
        v0recs = v0.records() if start == "v0" else []
        # an AXFR is unconditional: a serial handed to Inbound (the local one; 0 as the legacy dns.query.xfr route
        # passes; equal to, behind, ahead of, or more than 2^31 away from the server's) must make no difference
        aser = rng.choice([None, None, vn.serial, v0.serial, 0, (vn.serial + 1) % 2**32, (vn.serial - 1) % 2**32,
                           (vn.serial + 2**31 - 1) % 2**32, (vn.serial + 2**31) % 2**32, (vn.serial + 2**31 + 1) % 2**32,
                           (vn.serial - 2**31 + 1) % 2**32, 2**32 - 1])
        case = base_case(rng, o, v0recs, "AXFR", aser, False)
        recs = axfr_stream(rng, vn, ooz)
        target = vn.records()
    elif shape == "axfr-style":
        case = base_case(rng, o, v0.records(), "IXFR", v0.serial, False)
        recs = axfr_stream(rng, vn, False)
        target = vn.records()
    elif shape == "uptodate":
        case = base_case(rng, o, v0.records(), "IXFR", v0.serial, rng.chance(1, 3))
        recs = [v0.soa()]
        target = v0.records()
    else:
        case = base_case(rng, o, v0.records(), "IXFR", v0.serial, shape == "udp-ixfr")
        recs, delranges = ixfr_stream(rng, chain, ooz)
        target = vn.records()
    return {"shape": shape, "o": o, "chain": chain, "case": case, "recs": recs, "target": target, "delranges": delranges}


def valid_cases(rng, st, nrand, exhaustive=False):
    shape, recs, case = st["shape"], st["recs"], st["case"]
    exp = {"class": "valid", "shape": shape, "target": st["target"], "fault": "-"}
    rdtype = case["req"]["rdtype"]
    if case["req"]["udp"]:
        yield with_msgs(case, to_msgs(rng, recs, [len(recs)], rdtype, st["o"]), exp, rng.choice(["wire", "wire", "sock"]))
        return
    if exhaustive:
        for sizes in all_compositions(len(recs)):
            yield with_msgs(case, to_msgs(rng, recs, sizes, rdtype, st["o"], group=False), exp, "wire")
        return
    for i in range(nrand):
        sizes = [len(recs)] if i == 0 else rand_sizes(rng, len(recs))
        if sizes and sizes[0] == 0:
            sizes = sizes[1:]
        via = rng.choice(["wire", "wire", "wire", "sock"])
        if rdtype == "AXFR" and case["req"]["serial"] is not None:
            via = "wire"  # (make_query turns a serial into an IXFR query; Inbound is constructed directly here)
        if via == "sock" and rng.chance(1, 2):
            via = "async"  # the asyncio twin of the loop
        case = dict(case, ctor=rng.choice(["pos", "kw", "int", "default"]))
        yield with_msgs(case, to_msgs(rng, recs, sizes, rdtype, st["o"], group=(rdtype == "AXFR" and rng.chance(1, 2))), exp, via)


def is_soa(r):
    return r[2] == "SOA"


def bump_serial(r, delta):
    f = r[3].split()
    f[2] = str((int(f[2]) + delta) % 2**32)
    return [r[0], r[1], r[2], " ".join(f)]


def fault_cases(rng, st, every=True):
    """single faults at every position of a valid stream (one random chunking each)"""
    shape, recs, case, o = st["shape"], st["recs"], st["case"], st["o"]
    rdtype = case["req"]["rdtype"]
    udp = case["req"]["udp"]
    L = len(recs)
    true_ixfr = shape in ("ixfr", "udp-ixfr")

    def emit(newrecs, fault, cls="any", err=None, sizes=None, tweak=None, req=None):
        if sizes is None:
            sizes = [len(newrecs)] if udp else rand_sizes(rng, len(newrecs), empties=False)
        msgs = to_msgs(rng, newrecs, sizes, rdtype, o) if newrecs or sizes else []
        if tweak:
            tweak(msgs)
        c = dict(case)
        if req:
            c["req"] = dict(case["req"], **req)
        exp = {"class": cls, "shape": shape, "fault": fault}
        if err:
            exp["err"] = err
        c["ctor"] = rng.choice(["pos", "pos", "kw", "int"])
        return with_msgs(c, msgs, exp, "wire")

    positions = range(L) if every else sorted({rng.below(L) for _ in range(4)})
    in_del = lambda i: any(a <= i < b for a, b in st["delranges"])
    for i in positions:
        # drop
        cls = "any"
        if i == L - 1 and L > 1:
            cls = "must-raise"  # the final SOA never arrives
        if i == 0 and shape == "axfr" and not is_soa(recs[1]):
            cls = "must-raise"  # an AXFR that does not start with the SOA
        yield emit(recs[:i] + recs[i + 1:], f"drop@{i}", cls)
        # duplicate (adjacent)
        cls = "any"
        if true_ixfr and in_del(i) and recs[i][0].lower().endswith(o.lower()):
            cls = "must-raise"  # a deletion that cannot be exact the second time
        if true_ixfr and i == 0:
            cls = "must-raise"  # empty IXFR sequence
        yield emit(recs[:i + 1] + [recs[i]] + recs[i + 1:], f"dup@{i}", cls)
        # swap with the next record
        if i + 1 < L and rkey(recs[i]) != rkey(recs[i + 1]):
            cls = "any"
            if i == 0 and shape == "axfr" and not is_soa(recs[1]):
                cls = "must-raise"
            s = list(recs)
            s[i], s[i + 1] = s[i + 1], s[i]
            yield emit(s, f"swap@{i}", cls)
        # truncate: only the first i records arrive
        if i < L:
            yield emit(recs[:i], f"truncate@{i}", "must-raise", sizes=None if i else [])
        # corrupt the serial of an SOA
        if is_soa(recs[i]):
            s = list(recs)
            s[i] = bump_serial(recs[i], rng.choice([1, 7, 2**31 + 5]))
            yield emit(s, f"soa-serial@{i}")
            # corrupt another field of an SOA (refresh): it is no longer the SOA it was.  The final SOA then is
            # not recognised (nothing ever equals the first SOA: the stream cannot complete), the first SOA
            # makes the real final SOA unrecognisable; an inner SOA only changes what is stored on the way
            s = list(recs)
            f = recs[i][3].split()
            f[3] = str(int(f[3]) + 17)
            s[i] = [recs[i][0], recs[i][1], recs[i][2], " ".join(f)]
            outer = i in (0, L - 1) and L > 1
            yield emit(s, f"soa-field@{i}", "must-raise" if outer else "any")
        # corrupt the owner: another in-zone name / out of zone / (for an SOA) a non-apex name
        s = list(recs)
        newo = rng.choice([f"moved.{o}", "moved.other.test.", f"www.{o}"])
        s[i] = [newo, recs[i][1], recs[i][2], recs[i][3]]
        # an SOA that is in the zone but not at its apex is refused wherever it arrives (first: FormError,
        # while adding: ValueError, while deleting: DeleteNotExact)
        yield emit(s, f"owner@{i}", "must-raise" if is_soa(recs[i]) and newo.endswith("." + o) else "any")
    # a record of another class (in the zone, not an SOA): txn.add / txn.delete_exact refuse it, ValueError;
    # a TTL above 2^31-1 (read as 0 from the wire)
    cand = [i for i in range(1, L - 1) if not is_soa(recs[i]) and recs[i][2] in ("TXT", "MX", "NS", "CNAME")
            and recs[i][0].lower().endswith(o.lower())]
    for i in rng.shuffle(cand)[:3]:
        s = list(recs)
        s[i] = list(recs[i][:4]) + ["CH"]
        yield emit(s, f"class@{i}", "must-raise", "ValueError")
    for i in rng.shuffle([i for i in range(1, L - 1) if not is_soa(recs[i])])[:2]:
        s = list(recs)
        s[i] = [recs[i][0], rng.choice([2**31, 2**32 - 1]), recs[i][2], recs[i][3]]
        yield emit(s, f"ttl-over@{i}")
    # a whole difference sequence is missing (the chain jumps): the next SOA does not continue from our serial
    if true_ixfr and len(st["delranges"]) >= 2:
        starts = [a - 1 for a, _ in st["delranges"]] + [L - 1]
        for k in range(1, len(st["delranges"])):
            yield emit(recs[:starts[k]] + recs[starts[k + 1]:], f"drop-step@{k}", "must-raise", "FormError")
    # per message faults: rcode and question
    for _ in range(2 if every else 1):
        sizes = [L] if udp else rand_sizes(rng, L, empties=False)
        j = rng.below(len(sizes))

        def rc(msgs, j=j):
            msgs[j]["rcode"] = rng.choice([1, 2, 5, 9, 16, 23])  # 16, 23: extended (upper bits in the OPT record)
        yield emit(recs, f"rcode@m{j}", "must-raise", "TransferError", sizes=sizes, tweak=rc)

        def qn(msgs, j=j):
            msgs[j]["q"] = [rng.choice(["other.test.", f"www.{o}", "."]), rdtype]
        yield emit(recs, f"qname@m{j}", "must-raise", "FormError", sizes=sizes, tweak=qn)

        def both(msgs, j=j):
            msgs[j]["rcode"] = rng.choice([2, 5, 16])
            msgs[j]["q"] = [rng.choice(["other.test.", f"www.{o}"]), rng.choice([rdtype, "SOA"])]
        yield emit(recs, f"rcode+question@m{j}", "must-raise", "TransferError", sizes=sizes, tweak=both)

        def qt(msgs, j=j):
            msgs[j]["q"] = [o, rng.choice(["SOA", "AXFR" if rdtype == "IXFR" else "IXFR", "ANY"])]
        yield emit(recs, f"qtype@m{j}", "must-raise", "FormError", sizes=sizes, tweak=qt)
    # surplus after the final SOA, in the same message
    # (the surplus record is: a copy of an earlier record of that message, a new rdata for an (owner, type) seen
    #  earlier in that message, a copy of the SOA, an unrelated record — a reader that merged it into an
    #  earlier rrset would move it in front of the final SOA)
    for _ in range(3):
        klast = L if udp else min(L, rng.choice([1, 2, 4, 8, L]))
        inlast = [r for r in recs[L - klast:L - 1] if not is_soa(r)] or [r for r in recs if not is_soa(r)]
        pick = rng.choice(inlast) if inlast else None
        cands = [[f"surplus.{o}", 300, "A", "192.0.2.77"], recs[-1]]
        if pick:
            cands += [pick, pick]
            try:
                alt = gen_rdata(rng, o, pick[2])
            except ValueError:
                alt = None
            if alt and alt != pick[3] and pick[2] not in ("CNAME", "NSEC"):
                cands += [[pick[0], pick[1], pick[2], alt]] * 3
        extra = rng.choice(cands)
        sizes = [L + 1] if udp else rand_sizes(rng, L - klast, empties=False) + [klast + 1]
        yield emit(recs + [extra], "surplus-same-message", "must-raise", "FormError", sizes=sizes)
    if not udp:
        # … and in a later message: never read, the transfer is complete
        yield emit(recs + [extra], "surplus-next-message", "any", sizes=rand_sizes(rng, L, empties=False) + [1])
    # request faults: what Inbound.__init__ refuses
    cno = emit(recs, "init-zone-without-origin", "must-raise", "ValueError")
    if cno["zk"] != "btree":
        # (relativize=False: with relativize=True the effective origin of an origin-less zone is the empty name,
        #  Inbound's check does not fire and the transfer fails later with KeyError — still an error, zone untouched)
        yield dict(cno, no_origin=True, v0=[], rel=False)
    if rdtype == "AXFR":
        yield emit(recs, "init-axfr-over-udp", "must-raise", "ValueError", req={"udp": True})
    else:
        yield emit(recs, "init-ixfr-without-serial", "must-raise", "ValueError", req={"serial": None})
    yield emit(recs, "init-bad-rdtype", "must-raise", "ValueError", req={"rdtype": rng.choice(["SOA", "ANY", "A"])})
    yield dict(emit(recs, "init-rdtype-as-text", "must-raise", "ValueError"), ctor="str")  # "AXFR" / "IXFR" as str
    # a foreign BaseException raised inside process_message by a hostile rrset object: it must come out, the zone
    # must be as before and nothing may stay open (hand-built messages only)
    for _ in range(2):
        sizes = [L] if udp else rand_sizes(rng, L, empties=False)
        cb = emit(recs, "boom", "boom", sizes=sizes)
        pos = rng.below(L)
        acc = 0
        for mi, md in enumerate(cb["msgs"]):
            if pos < acc + len(md["an"]):
                yield dict(cb, via="direct", boom=[mi, pos - acc], ctor="pos")
                break
            acc += len(md["an"])
    # the caller keeps feeding after process_message returned True
    if shape in ("axfr", "ixfr", "axfr-style", "udp-ixfr") and not udp:
        base_msgs = to_msgs(rng, recs, rand_sizes(rng, L, empties=False), rdtype, o)
        for extra, err in (([{"rcode": 0, "q": None, "an": []}], None),
                           ([{"rcode": 0, "q": None, "an": []}, {"rcode": 0, "q": None, "an": [[recs[-1]]]}], "FormError")):
            ce = with_msgs(dict(case, ctor="pos"), base_msgs + extra,
                           {"class": "after-done", "shape": shape, "fault": "fed-past-the-end", "target": st["target"]}, "wire")
            if err:
                ce["expect"]["err"] = err
            yield dict(ce, end="all")
    if rdtype == "IXFR":
        base = case["req"]["serial"]
        tgt = st["chain"][-1].serial
        if true_ixfr:
            for d in (1, 2**31 - 1, 2**31, 2**32 - 1, 12345):
                wb = (base + d) % 2**32
                if wb != tgt and wb != base:
                    yield emit(recs, "wrong-base-serial", "must-raise", req={"serial": wb})
        if shape != "uptodate":
            # the server's serial is behind ours
            for d in (1, 2, 2**31 - 1):
                yield emit(recs, "backwards-serial", "must-raise", "SerialWentBackwards", req={"serial": (tgt + d) % 2**32})
        if shape in ("ixfr", "udp-ixfr", "axfr-style"):
            c = emit(recs[:1], "udp-truncated", "must-raise", "UseTCP", sizes=[1], req={"udp": True})
            yield c


def gen_mkq(rng):
    o, chain = gen_chain(rng, 0, True)
    v = chain[0]
    recs = v.records(with_soa=rng.chance(4, 5))
    if rng.chance(1, 8):
        recs = []
    zk = rng.choice(["plain", "versioned", "btree"])
    ser = rng.choice([None, 0, 0, 1, 5, 2**31, 2**32 - 1, 2**32, 2**32 + 5, -1, -7, v.serial,
                      {"py": "str:5"}, {"py": "float:2.5"}, {"py": "str:0"}])
    return {"kind": "mkq", "zk": zk, "rel": rng.chance(1, 2), "origin": o, "v0": recs, "serial": ser}


def gen_scmp(rng):
    a = rng.choice(SERIAL_POOL)
    d = rng.choice([0, 1, 2, 2**31 - 1, 2**31, 2**31 + 1, 2**32 - 1, rng.below(2**32)])
    b = (a + d) % 2**32 if rng.chance(3, 4) else rng.below(2**32)
    if rng.chance(1, 10):
        b += 2**32  # an int beyond 32 bits is reduced by Serial()
    if rng.chance(1, 10):
        a += 2**32
    return {"kind": "scmp", "a": a, "b": b}


def case_key(c):
    if c.get("kind", "xfr") != "xfr":
        return json.dumps(c, sort_keys=True, default=str)
    return (c["zk"], c["rel"], c["origin"], c["req"]["rdtype"], c["req"]["serial"], c["req"]["udp"], c.get("via"), c.get("end"), c.get("ctor"), str(c.get("boom")),
            json.dumps(c["msgs"]), len(c["v0"]))


def big_cases(rng):
    """sizes beyond the comfortable: an AXFR of ~1700 names whose main message is longer than 0x8000 octets (TCP
    frame length with the top bit set, compression pointers up to 0x3FFF and names beyond them), into a B-tree /
    versioned zone; then an IXFR that deletes some hundred of those names again"""
    o = "big.example."
    n = rng.range(1650, 1750)
    soa0 = [o, 300, "SOA", soa_text(o, 2**31 - 2)]
    soa1 = [o, 300, "SOA", soa_text(o, 2**31 + 3)]
    body = [[o, 300, "NS", f"ns1.{o}"]] + [[f"n{i:04d}.{o}", 300, "A", f"192.0.2.{i % 250 + 1}"] for i in range(n)]
    zk = rng.choice(["btree", "btree", "versioned"])
    rel = rng.chance(1, 2)
    recs = [soa0] + body + [soa0]
    sizes = [1, len(recs) - 40, 39]
    case = {"kind": "xfr", "zk": zk, "rel": rel, "origin": o, "v0": [], "req": {"rdtype": "AXFR", "serial": None, "udp": False}}
    for via in ("sock", "async"):
        yield with_msgs(case, to_msgs(rng, recs, sizes, "AXFR", o, question="first"),
                        {"class": "valid", "shape": "axfr", "fault": "-", "target": [soa0] + body}, via)
    gone = [r for r in body[1:] if rng.chance(1, 5)]
    new = [[f"m{i:03d}.{o}", 60, "AAAA", f"2001:db8::{i + 1}"] for i in range(rng.range(20, 60))]
    stream = [soa1, soa0] + gone + [soa1] + new + [soa1]
    case2 = {"kind": "xfr", "zk": zk, "rel": rel, "origin": o, "v0": [soa0] + body,
             "req": {"rdtype": "IXFR", "serial": 2**31 - 2, "udp": False}}
    target = [soa1] + [r for r in body if r not in gone] + new
    yield with_msgs(case2, to_msgs(rng, stream, rand_sizes(rng, len(stream), empties=False), "IXFR", o),
                    {"class": "valid", "shape": "ixfr", "fault": "-", "target": target}, "wire")


def generate(ctx: Ctx, scale: float, rng, budget_s: float):
    n = lambda q: max(1, int(q * scale))
    for c in big_cases(rng):
        ctx.case(case_key(c))
        eval_case(ctx, c)
        ctx.count("big")
    for _ in range(n(300)):
        c = gen_scmp(rng)
        ctx.case(case_key(c), sample=c)
        eval_case(ctx, c)
    for _ in range(n(60)):
        c = gen_mkq(rng)
        ctx.case(case_key(c), sample=c)
        eval_case(ctx, c)
    # short streams: every chunking
    for _ in range(n(24)):
        st = gen_stream(rng, small=True)
        if len(st["recs"]) <= 9:
            for c in valid_cases(rng, st, 0, exhaustive=True):
                ctx.case(case_key(c))
                eval_case(ctx, c)
            ctx.count("streams.exhaustive-chunkings")
    # streams: random chunkings + every single fault at every position
    i = 0
    target = n(170)
    while i < target and ctx.elapsed() < budget_s:
        st = gen_stream(rng, small=(i % 3 == 0))
        i += 1
        ctx.count("streams")
        ctx.count("stream.len.%s" % ("<=8" if len(st["recs"]) <= 8 else "<=20" if len(st["recs"]) <= 20 else "<=50" if len(st["recs"]) <= 50 else ">50"))
        ctx.count("chain.steps.%d" % (len(st["chain"]) - 1))
        if any(r[2] == "CNAME" for r in st["recs"]):
            ctx.count("stream.has-cname")
        for a, b in zip(st["chain"], st["chain"][1:]):
            for (n, t) in b.sets:
                if t == "CNAME" and any(k[0] == n and k[1] not in ("CNAME", "NSEC") for k in a.sets):
                    ctx.count("step.data-to-cname")
                if t not in ("CNAME", "NSEC") and (n, "CNAME") in a.sets:
                    ctx.count("step.cname-to-data")
                if (n, t) in a.sets and a.sets[(n, t)][0] != b.sets[(n, t)][0]:
                    ctx.count("step.ttl-change")
        # every case goes through wire format (rendered, then read back the way dns.query._inbound_xfr reads:
        # xfr=True, one_rr_per_rrset only for IXFR); a sample is also handed to Inbound as hand-built messages
        for c in valid_cases(rng, st, 4):
            ctx.case(case_key(c), sample=c if len(st["recs"]) < 10 else None)
            eval_case(ctx, c)
            if rng.chance(1, 2):
                c2 = dict(c, via="direct")
                ctx.case(case_key(c2))
                eval_case(ctx, c2)
            if c["req"]["udp"] and rng.chance(1, 2):
                c5 = dict(c, via="async")
                ctx.case(case_key(c5))
                eval_case(ctx, c5)
            if c.get("via") not in ("sock", "async") and rng.chance(1, 2):
                c3 = dict(c, end=rng.choice(["quiet", "exc"]))
                ctx.case(case_key(c3))
                eval_case(ctx, c3)
        for c in fault_cases(rng, st, every=(len(st["recs"]) <= 40)):
            ctx.case(case_key(c))
            eval_case(ctx, c)
            if rng.chance(1, 5):
                c2 = dict(c, via="direct")
                ctx.case(case_key(c2))
                eval_case(ctx, c2)
            # Inbound driven directly as a context manager: the caller stops feeding and leaves the block
            # normally ("quiet") or by an exception of its own ("exc") — at every cut point of the stream
            # (truncate@k), and for a sample of the other faults
            if (c["req"] == st["case"]["req"] and not (c["req"]["rdtype"] == "AXFR" and c["req"]["serial"] is not None)
                    and not c.get("boom") and not c.get("end") and c.get("ctor") != "str" and rng.chance(1, 10)):
                c4 = dict(c, via=rng.choice(["sock", "async"]))
                ctx.case(case_key(c4))
                eval_case(ctx, c4)
            fk = c["expect"].get("fault", "")
            if c.get("boom") or c.get("end"):
                continue
            if fk.startswith("truncate") or rng.chance(1, 6):
                for end in (("quiet", "exc") if fk.startswith("truncate") else (rng.choice(["quiet", "exc"]),)):
                    c3 = dict(c, end=end)
                    ctx.case(case_key(c3))
                    eval_case(ctx, c3)
        if st["shape"] == "axfr" and not any(r[0].lower() in {x[0].lower() for x in OOZ} for r in st["recs"]):
            for c in legacy_cases(rng, st):
                ctx.case(case_key(c))
                eval_case(ctx, c)
        if st["shape"] == "ixfr" and i % 2 == 0:
            for c in glue_cases(rng, st):
                ctx.case(case_key(c))
                eval_case(ctx, c)
    ctx.extra["streams_generated"] = i


def run(ctx: Ctx):
    ZC.drop()
    corpus = sorted(glob.glob(os.path.join(VERIF, "corpus", "C13", "*.json")))
    for p in corpus:
        c = json.load(open(p))
        ctx.case(("corpus", p))
        eval_case(ctx, c)
        ctx.count("corpus")
    # core.Rng maps adjacent seeds to the same sequence shifted by one draw; fork to decorrelate them
    rng = ctx.rng.fork(ctx.seed + 101)
    # budgets are relative to now: waiting for the shared lake lock must not eat the generation time
    if ctx.tier == "quick":
        generate(ctx, 1, rng, ctx.elapsed() + 33)
    else:
        generate(ctx, 20, rng, ctx.elapsed() + 700)


def search(ctx: Ctx):
    """failing-input search on the implementation: the disagreeing cases, then a fresh larger budget"""
    for m in ctx.mismatches[:50]:
        if m.case is not None:
            eval_case(ctx, m.case)
    generate(ctx, 2 if ctx.tier == "quick" else 30, ctx.rng.fork(13), ctx.elapsed() + (60 if ctx.tier == "quick" else 600))


def replay(ctx: Ctx, obj: dict):
    ZC.drop()
    eval_case(ctx, obj["case"])
    return [f.what for f in ctx.failures]


LEVEL = {
    "text": "Lean 4 theorems over an executable model of dns/xfr.py as it is (Inbound.__init__/process_message/__exit__, the message loop of dns.query._inbound_xfr, the UDP-first/TCP-retry glue of dns.query.inbound_xfr, make_query/extract_serial_from_query, RFC 1982 comparison) on an abstract zone = set of (owner, type+covers, rdata, ttl) whose put carries the TTL minimisation and singleton rule of dns.rdataset and the CNAME exclusion of dns.node (tables regenerated from the tree): AXFR, multi-step IXFR (any chain of coherent versions with their computed difference sequences, A<->CNAME replacements and TTL changes included), AXFR-style answers, the up-to-date answer, UDP IXFR, UseTCP->TCP retry, AXFR with out-of-zone glue in the body (skipped) and transfers read from the wire (parseAnswer: rrset merging before the first SOA of a message, order kept from it on, TTL clamp) converge to the target version (records, TTLs, serial) for every division of the stream into messages; ixfr_denotes states what any applicable difference sequences yield (protocol-undetectable faults: dropped record, record moved across the delete/add boundary); fault families at every position (truncation, bad rcode/question on any message, wrong base / backwards serial, UseTCP, a UDP datagram that ends early, surplus after the final SOA, first rrset not the apex SOA, a dropped or type-corrupted SOA at every place of an IXFR, owner-corrupted SOA in add and delete mode, a deletion sent twice in any sequence, an addition read in delete mode) raise and leave the zone as it was; for all message sequences whatsoever an error is never reported after a commit (error_implies_unapplied, unconditional since 3feda1c), and a caller that drives Inbound directly and leaves the with-block before a process_message call returned True — normally or by an exception — finds the zone exactly as before (early_exit_leaves_zone). Tied to the code by a differential correspondence check (state after every message, outcome class, zone with TTLs) and a direct oracle (target equality, must-raise classes, atomicity, no transaction left open, retry behaviour).",
    "note": "Trusted: Lean kernel + propext/Classical.choice/Quot.sound; the statements in lean/Props/C13.lean; the correspondence harness and its generators; name canonicalisation (lower-casing) in the driver; sockets are scripted (timeouts, TSIG outside the model). repair_changed_only_d11 / before_repair_surplus_was_committed record what commit 3feda1c changed; reverting it is reported as a violation with the D11 signature.",
    "technique": "Lean 4 proof (state-machine refinement to set-level difference application up to set equality on coherent zones, induction over version chains and message lists, atomicity invariant, variant bisimulation) + model-vs-implementation correspondence + direct oracle",
    "design_ref": "DESIGN.md §7 C13",
}

"""C02 — every record type's wire form round-trips and re-encodes byte-identically.

Correspondence (both directions, every implemented type): value trees -> `Rdata.to_wire` vs the model's `enc`;
octet strings (valid, compressed against a prefix, mutated, arbitrary) -> `dns.rdata.from_wire` vs the model's `dec`
(ok / FormError family + canonical field tree).
Direct oracle on the implementation for *all* implemented types and for unknown type codes: encode-decode equality,
byte-identical re-encoding, decode-encode-decode fixed point, exact consumption of the declared RDATA length,
independence from octets outside the slice, only DNSException-family errors.
"""
import binascii
import glob
import io
import json
import os
import subprocess
import sys

import dns.edns
import dns.exception
import dns.ipv4
import dns.ipv6
import dns.name
import dns.rdata
import dns.rdataclass
import dns.rdatatype
import dns.rdtypes.util
import dns.wire

from harness.core import VERIF, Ctx, enc_labels, hx

RULE = (
    "one SplitMix64 state; per implemented (class,type): structured value trees (every integer field from "
    "{0,1,mid,max-1,max} pools or uniform, opaque octet fields over all 256 values with lengths from {0,1,2,7,8,9,31,32,33,63,"
    "64,127,128,254,255,256} where legal, names absolute/relative with origins incl. root and near the 255 limit, bitmap "
    "windows / option lists / SVCB parameter sets / APL items / gateway kinds enumerated), constructor-invalid variants, "
    "their encodings re-read behind a random prefix with names compressed into it, byte-level mutations "
    "(flip, insert, delete, truncate, extend, length-octet edits, pointer injection) and arbitrary strings of boundary "
    "lengths; a case is non-trivial if its key (kind, class, type, origin, input) is new"
)
TRUSTED_BASE = [
    "struct.pack/unpack big-endian = radix-256 (modelled directly); dns.ipv4/ipv6 inet_aton∘inet_ntoa = id, "
    "parse_formatted_hex∘_hexify = id, str.encode∘bytes.decode('utf8') = id on valid UTF-8 (external contracts; exercised by the oracle)",
    "float() of a decimal string is correctly rounded (GPOS range test modelled with exact rationals)",
]
ASSUMPTIONS = [
    "to_wire is exercised uncompressed (compress=None, canonicalize=False); compression/canonical form of embedded names belong to C03/C15",
    "with an origin, equality after the round trip is demanded for relative names and for absolute names not below the origin "
    "(an absolute name below the origin decodes relativized, which dnspython's == distinguishes)",
    "values are encodable: total RDATA length <= 65535",
    "GenericRdata is used for unknown type codes and for class/type pairs without a module (RFC 3597)",
]

ANY = 255
# which reading of a recorded decision point the working tree implements (DESIGN §6): 0 = as shipped,
# 1 = EDE text loses *every* trailing NUL on decoding (the proposed repair of C02/fixpoint/EDE-text-ends-with-NUL)
VARIANT = 0
OCT_LEN = [0, 0, 1, 1, 2, 3, 7, 8, 9, 16, 20, 31, 32, 33, 48, 63, 64, 127, 128, 254, 255]
LETTERS = [0x61, 0x62, 0x41, 0x42, 0x63]
OCTET_POOL = [0x00, 0x01, 0x20, 0x22, 0x2E, 0x30, 0x39, 0x40, 0x41, 0x5A, 0x5C, 0x61, 0x7A, 0x7F, 0x80, 0xC0, 0xFE, 0xFF]


# ------------------------------------------------------------------------------------------------
# value trees: int | bytes | dns.name.Name | None (unit) | tuple (pairs, right nested) | list
# ------------------------------------------------------------------------------------------------
def dump(t):
    out = []

    def go(x):
        if x is None:
            out.append("u")
        elif isinstance(x, bool):
            out.append("n%d" % int(x))
        elif isinstance(x, int):
            out.append("n%d" % x)
        elif isinstance(x, (bytes, bytearray)):
            out.append("b" + hx(bytes(x)))
        elif isinstance(x, dns.name.Name):
            out.append("N" + enc_labels(x.labels))
        elif isinstance(x, tuple):
            out.append("(")
            spine(x)
            out.append(")")
        elif isinstance(x, list):
            out.append("[")
            for y in x:
                go(y)
            out.append("]")
        else:
            raise TypeError(f"not a tree: {x!r}")

    def spine(x):
        assert len(x) >= 1
        for y in x[:-1]:
            go(y)
        if isinstance(x[-1], tuple):
            spine(x[-1])
        else:
            go(x[-1])

    go(t)
    return " ".join(out)


def parse(s):
    toks = s.split()
    pos = 0

    def go():
        nonlocal pos
        t = toks[pos]
        pos += 1
        if t == "u":
            return None
        if t == "(":
            items = []
            while toks[pos] != ")":
                items.append(go())
            pos += 1
            return tuple(items)
        if t == "[":
            items = []
            while toks[pos] != "]":
                items.append(go())
            pos += 1
            return items
        if t[0] == "n":
            return int(t[1:])
        if t[0] == "b":
            return b"" if t[1:] == "-" else bytes.fromhex(t[1:])
        if t[0] == "N":
            body = t[1:]
            if body == "@":
                return dns.name.Name([])
            return dns.name.Name([b"" if x == "-" else bytes.fromhex(x) for x in body.split(",")])
        raise ValueError(t)

    v = go()
    assert pos == len(toks)
    return v


def names_in(t):
    if isinstance(t, dns.name.Name):
        yield t
    elif isinstance(t, (tuple, list)):
        for x in t:
            yield from names_in(x)


# ------------------------------------------------------------------------------------------------
# generators of primitive values
# ------------------------------------------------------------------------------------------------
def g_uint(rng, bits):
    m = (1 << bits) - 1
    r = rng.below(8)
    if r == 0:
        return 0
    if r == 1:
        return m
    if r == 2:
        return 1
    if r == 3:
        return m - 1
    if r == 4:
        return 1 << (bits - 1)
    if r == 5:
        return rng.choice([255, 256, 257, 0x7F, 0x80, 0xFF00, 65535, 65536]) & m
    return rng.below(m + 1)


def g_bytes(rng, lo=0, hi=255, n=None):
    if n is None:
        n = rng.choice(OCT_LEN)
        if rng.chance(1, 10):
            n = rng.range(lo, max(lo, min(hi, 300)))
        if hi >= 65535 and rng.chance(1, 150):
            # the far end of a 16-bit length (and one short of it); sign bit of a 16-bit length
            n = rng.choice([65535, 65534, 32768, 32767, 256])
    n = max(lo, min(hi, n))
    mode = rng.below(4)
    if mode == 0:
        return rng.bytes(n, LETTERS)
    if mode == 1:
        return rng.bytes(n, OCTET_POOL)
    return rng.bytes(n)


def g_label(rng, maxlen=63):
    n = min(rng.choice([1, 1, 1, 2, 3, 5, 8, 31, 62, 63]), maxlen)
    mode = rng.below(4)
    if mode == 0:
        return rng.bytes(n, LETTERS)
    if mode == 1:
        return rng.bytes(n)
    return rng.bytes(n, OCTET_POOL)


def g_labels(rng, absolute, budget=255):
    if absolute:
        budget -= 1
    labels = []
    k = rng.choice([0, 1, 1, 2, 2, 3, 3, 4, 5])
    push = rng.chance(1, 10)
    if push:
        k = 12
    for _ in range(k):
        if budget < 2:
            break
        l = g_label(rng, min(63, budget - 1))
        if push and budget - 1 <= 63 and rng.chance(1, 2):
            l = rng.bytes(budget - 1 - rng.below(2) if budget > 2 else 1, OCTET_POOL)
        if not l:
            continue
        labels.append(l)
        budget -= len(l) + 1
    if absolute:
        labels.append(b"")
    return labels


def wlen(labels):
    return sum(len(l) + 1 for l in labels)


def g_name(rng, env):
    """a name usable with env['origin']: relative ones fit together with the origin"""
    origin = env["origin"]
    if origin is None:
        if rng.chance(1, 40):
            return dns.name.Name(g_labels(rng, False, 60))
        return dns.name.Name(g_labels(rng, True))
    r = rng.below(10)
    if r < 6:
        return dns.name.Name(g_labels(rng, False, 255 - wlen(origin.labels)))
    if r < 9:
        return dns.name.Name(g_labels(rng, True))
    # absolute and below the origin (decodes relativized)
    ls = g_labels(rng, False, 255 - wlen(origin.labels))
    return dns.name.Name(ls + list(origin.labels))


# ------------------------------------------------------------------------------------------------
# field kinds of the plain types: generator, object attribute -> tree, tree -> constructor argument
# ------------------------------------------------------------------------------------------------
class K:
    def gen(self, rng, env):
        raise NotImplementedError

    def to_tree(self, v):
        return v

    def from_tree(self, t):
        return t


class U(K):
    def __init__(self, bits, pool=None):
        self.bits, self.pool = bits, pool

    def gen(self, rng, env):
        if self.pool and rng.chance(2, 3):
            return rng.choice(self.pool)
        return g_uint(rng, self.bits)

    def to_tree(self, v):
        return int(v)


class B(K):
    def __init__(self, lo=0, hi=100000, n=None, fmt=None):
        self.lo, self.hi, self.n = lo, hi, n
        self.fmt = fmt or ("fixed" if n is not None else "c8" if hi == 255 else "c16" if hi == 65535 else "rest")

    def gen(self, rng, env):
        if self.n is not None:
            return g_bytes(rng, n=self.n)
        return g_bytes(rng, self.lo, self.hi)

    def to_tree(self, v):
        return bytes(v)


class NM(K):
    def gen(self, rng, env):
        return g_name(rng, env)


class NMABS(K):
    def gen(self, rng, env):
        return dns.name.Name(g_labels(rng, True))


IP6_POOL = [bytes(16), b"\xff" * 16, bytes(15) + b"\x01", bytes(10) + b"\xff\xff\x01\x02\x03\x04", bytes(12) + b"\x01\x02\x03\x04",
            b"\x20\x01\x0d\xb8" + bytes(12), b"\x00\x01" + bytes(14), bytes(8) + b"\x00\x01" * 4, b"\x00\x01" * 8,
            b"\x00\x01\x00\x00\x00\x01\x00\x00\x00\x00\x00\x01\x00\x00\x00\x00", bytes(10) + b"\xff\xff\x00\x00\x00\x00",
            bytes(12) + b"\x00\x00\x00\x01", bytes(12) + b"\x00\x01\x00\x00", b"\x00\x64\xff\x9b" + bytes(8) + b"\x01\x02\x03\x04"]


class IP4(K):
    def gen(self, rng, env):
        return rng.choice([bytes(4), b"\xff" * 4, b"\x7f\x00\x00\x01", rng.bytes(4), rng.bytes(4, OCTET_POOL)])

    def to_tree(self, v):
        return dns.ipv4.inet_aton(v)

    def from_tree(self, t):
        return bytes(t)  # the constructors take the packed form (`_as_ipv4_address`)


class IP6(K):
    def gen(self, rng, env):
        r = rng.below(4)
        if r == 0:
            return rng.choice(IP6_POOL)
        if r == 1:
            return rng.bytes(16, [0, 0, 0, 1, 0xFF])
        return rng.bytes(16)

    def to_tree(self, v):
        return dns.ipv6.inet_aton(v)

    def from_tree(self, t):
        return bytes(t)


class HEX64(K):
    """L64 / NID: stored as xxxx:xxxx:xxxx:xxxx"""

    def gen(self, rng, env):
        return rng.bytes(8) if rng.chance(2, 3) else rng.bytes(8, [0, 0xFF, 0x0A, 0xA0])

    def to_tree(self, v):
        return dns.rdtypes.util.parse_formatted_hex(v, 4, 4, ":")

    def from_tree(self, t):
        return bytes(t)  # the constructor formats an 8-octet bytes value itself


class BITMAP(K):
    def gen(self, rng, env):
        n = rng.choice([0, 1, 1, 2, 3, 5])
        ws = sorted(set(rng.choice([0, 1, 2, 127, 128, 254, 255, rng.below(256)]) for _ in range(n)))
        return [(w, g_bytes(rng, n=rng.choice([1, 1, 2, 7, 31, 32]))) for w in ws]

    def gen_bad(self, rng):
        v = self.gen(rng, None) or [(1, b"\x40")]
        m = rng.below(5)
        i = rng.below(len(v))
        if m == 0:
            v.insert(i, v[i])  # duplicate window
        elif m == 1 and len(v) >= 2:
            v[0], v[-1] = v[-1], v[0]  # descending
        elif m == 2:
            v[i] = (v[i][0], b"")  # empty bitmap
        elif m == 3:
            v[i] = (v[i][0], g_bytes(rng, n=rng.choice([33, 34, 64])))
        else:
            v.append((v[-1][0], g_bytes(rng, n=2)))
        return v

    def to_tree(self, v):
        return [(int(w), bytes(b)) for w, b in v]

    def from_tree(self, t):
        return [(w, b) for w, b in t]


class STRINGS(K):
    def gen(self, rng, env):
        return [g_bytes(rng, 0, 255) for _ in range(rng.choice([1, 1, 2, 3, 6]))]

    def to_tree(self, v):
        return [bytes(x) for x in v]

    def from_tree(self, t):
        return tuple(t)


u8, u16, u32, u48 = U(8), U(16), U(32), U(48)
c8, c16, rest = B(0, 255), B(0, 65535), B()


# (type, attribute) pairs whose constructor takes text as well as octets (`_as_bytes(value, True, …)`)
ENC_STR = {(257, "tag"), (13, "cpu"), (13, "os"), (20, "address"), (20, "subaddress"), (19, "address"), (35, "flags"),
           (35, "service"), (35, "regexp"), (50, "salt"), (50, "next"), (51, "salt"), (27, "latitude"), (27, "longitude"),
           (27, "altitude"), (44, "fingerprint"), (256, "target")}


def alt_route(k, v, i):
    """the same field value handed to the constructor in another accepted form (bytearray, text, ipaddress object,
    a single string instead of a sequence); `None` = no other form"""
    import ipaddress

    if isinstance(k, B):
        return bytearray(v)
    if isinstance(k, (NM, NMABS)):
        if v.is_absolute() and all(0x21 <= x <= 0x7E and x not in b'"().;\\@$' for l in v.labels for x in l):
            # text without the final dot is completed with the root by the constructors (`_as_name`)
            return v.to_text(omit_final_dot=(i % 2 == 0 and len(v.labels) > 1))
        return None
    if isinstance(k, IP4) and len(v) == 4:
        return dns.ipv4.inet_ntoa(v) if i % 2 else ipaddress.IPv4Address(v)
    if isinstance(k, IP6) and len(v) == 16:
        return dns.ipv6.inet_ntoa(v) if i % 2 else ipaddress.IPv6Address(v)
    if isinstance(k, HEX64) and len(v) == 8:
        return ":".join(v[j:j + 2].hex() for j in range(0, 8, 2))
    if isinstance(k, STRINGS):
        if len(v) == 1:
            return v[0]
        if all(all(x < 0x80 for x in e) for e in v):
            return [e.decode("ascii") for e in v]
        return list(v)
    return None


class Spec:
    """plain type: tree = tuple of the fields in wire order (a single field is the tree itself)"""

    custom = False

    def __init__(self, fields, fix=None, bad=None):
        self.fields, self.fix, self.bad = fields, fix, bad

    def gen(self, rng, env):
        vals = [k.gen(rng, env) for _, k in self.fields]
        if self.fix:
            vals = self.fix(rng, vals, env)
        return tuple(vals) if len(vals) > 1 else vals[0]

    def tree(self, rd):
        vals = [k.to_tree(getattr(rd, a)) for a, k in self.fields]
        return tuple(vals) if len(vals) > 1 else vals[0]

    def build(self, cls, rdclass, rdtype, t):
        vals = t if len(self.fields) > 1 else (t,)
        if len(vals) != len(self.fields):
            raise ValueError("arity")
        kw = {a: k.from_tree(v) for (a, k), v in zip(self.fields, vals)}
        return cls(rdclass, rdtype, **kw)

    def build_alt(self, cls, rdclass, rdtype, t, salt):
        """the same value through other accepted argument forms; None when there is none"""
        vals = t if len(self.fields) > 1 else (t,)
        kw, changed = {}, False
        for i, ((a, k), v) in enumerate(zip(self.fields, vals)):
            alt = alt_route(k, v, i + salt) if (i + salt) % 3 != 2 else None
            if isinstance(k, B) and (int(rdtype), a) in ENC_STR and (i + salt) % 2 == 0:
                try:
                    alt = bytes(v).decode("utf8")  # text whose UTF-8 encoding is the value
                except UnicodeDecodeError:
                    pass
            if alt is None:
                kw[a] = k.from_tree(v)
            else:
                kw[a] = alt
                changed = True
        return cls(rdclass, rdtype, **kw) if changed else None

    def gen_bad(self, rng, env):
        """a tree the constructor must reject (None if this type has no such thing)"""
        t = self.gen(rng, env)
        vals = list(t) if len(self.fields) > 1 else [t]
        cands = []
        for i, (a, k) in enumerate(self.fields):
            if isinstance(k, U):
                cands.append((i, (1 << k.bits) + rng.choice([0, 1, 255])))
            elif isinstance(k, B) and k.n is not None:
                cands.append((i, g_bytes(rng, n=k.n + rng.choice([1, 2]))))
                if k.n > 0:
                    cands.append((i, g_bytes(rng, n=k.n - 1)))
            elif isinstance(k, B) and k.hi == 255:
                cands.append((i, g_bytes(rng, n=256 + rng.below(3))))
            elif isinstance(k, BITMAP):
                cands.append((i, k.gen_bad(rng)))
            elif isinstance(k, (IP4, IP6, HEX64)):
                cands.append((i, g_bytes(rng, n=len(vals[i]) + rng.choice([-1, 1]))))
        if self.bad and (rng.chance(2, 3) or not cands):
            cands = list(self.bad(rng, vals, env))
        if not cands:
            return None
        i, v = rng.choice(cands)
        vals[i] = v
        return tuple(vals) if len(vals) > 1 else vals[0]


def raw_name(n, origin):
    ls = list(n.labels)
    if not n.is_absolute():
        ls += list(origin.labels) if origin is not None else [b""]
    return b"".join(bytes([len(l) & 0xFF]) + l for l in ls)


def raw_kind(k, v, origin):
    """generator-side encoder of one plain field, defined for out-of-range values too (never used as an oracle)"""
    if isinstance(k, U):
        n = k.bits // 8
        return (v % (1 << k.bits)).to_bytes(n, "big")
    if isinstance(k, B):
        if k.fmt == "c8":
            return bytes([len(v) & 0xFF]) + v
        if k.fmt == "c16":
            return (len(v) & 0xFFFF).to_bytes(2, "big") + v
        if k.fmt == "oc8":
            return (bytes([len(v) & 0xFF]) + v) if v else b""
        return v
    if isinstance(k, (NM, NMABS)):
        return raw_name(v, origin)
    if isinstance(k, (IP4, IP6, HEX64)):
        return v
    if isinstance(k, BITMAP):
        return b"".join(bytes([w & 0xFF, len(b) & 0xFF]) + b for w, b in v)
    if isinstance(k, STRINGS):
        return b"".join(bytes([len(x) & 0xFF]) + x for x in v)
    raise TypeError(k)


def spec_gen_raw(self, rng, env):
    """near-valid RDATA: a (possibly constructor-invalid) tree pushed through the generator-side encoder"""
    t = self.gen_bad(rng, env) if rng.chance(1, 2) else None
    if t is None:
        t = self.gen(rng, env)
    vals = t if len(self.fields) > 1 else (t,)
    try:
        return b"".join(raw_kind(k, v, env["origin"]) for (_, k), v in zip(self.fields, vals))
    except Exception:  # noqa: BLE001
        return None


Spec.gen_raw = spec_gen_raw


# ---- per-type fixes (make the generated tree pass the constructor's cross-field checks) ----------
def fix_ds(table):
    def f(rng, vals, env):
        dt = rng.choice([0, 1, 2, 3, 4, 5, 255, rng.below(256)])
        if dt in table:
            dg = g_bytes(rng, n=table[dt])
        elif dt == 0:
            dt = 5
            dg = g_bytes(rng, 0, 70)
        else:
            dg = g_bytes(rng, 0, 70)
        vals[2], vals[3] = dt, dg
        return vals

    return f


def bad_ds(table):
    def f(rng, vals, env):
        out = []
        for dt, n in table.items():
            out.append((None, (dt, g_bytes(rng, n=n + rng.choice([-1, 1, 5])))))
        if 0 not in table:
            out.append((None, (0, g_bytes(rng, 0, 40))))
        dt, dg = rng.choice(out)[1]
        vals[2] = dt
        return [(3, dg)]

    return f


def fix_zonemd(rng, vals, env):
    h = rng.choice([1, 2, 3, 240, 255, 1 + rng.below(255)])
    vals[1] = rng.choice([1, 2, 255, 1 + rng.below(255)])
    vals[2] = h
    vals[3] = g_bytes(rng, n=48) if h == 1 else g_bytes(rng, n=64) if h == 2 else g_bytes(rng, 0, 80)
    return vals


def bad_zonemd(rng, vals, env):
    r = rng.below(4)
    if r == 0:
        return [(1, 0)]
    if r == 1:
        return [(2, 0)]
    vals[2] = rng.choice([1, 2])
    return [(3, g_bytes(rng, n=rng.choice([0, 47, 49, 63, 65, 20])))]


def fix_caa(rng, vals, env):
    n = rng.choice([1, 1, 2, 5, 15, 255])
    vals[1] = rng.bytes(n, list(b"abcXYZ019issuewild"))
    return vals


def bad_caa(rng, vals, env):
    return [(1, rng.choice([b"", b"a-b", b"iss ue", b"\xe9", b"a" * 256, b"a."]))]


def g_floatstr(rng, bound):
    r = rng.below(13)
    sign = rng.choice(["", "", "-", "+"])
    if r == 12:
        return (sign + rng.choice(["0", "0.", ".0", "0.0", "00", "0.000"])).encode()
    if r == 0:
        return (sign + str(rng.below(bound + 1))).encode()
    if r == 1:
        return (sign + str(bound)).encode()
    if r == 2:
        return (sign + str(bound) + "." + "0" * rng.below(30)).encode()
    if r == 3:
        return (sign + "." + "".join(str(rng.below(10)) for _ in range(rng.range(1, 20)))).encode()
    if r == 4:
        return (sign + str(rng.below(bound)) + ".").encode()
    if r == 5:
        # within half an ulp above the bound: still accepted by float()
        k = 47 if bound == 90 else 46
        eps = rng.choice([2 ** k // 2, 2 ** k, 2 ** k - 1])  # numerator over 2^(2k)... keep simple: tiny tail
        return (sign + str(bound) + "." + "0" * rng.range(16, 40) + str(rng.range(1, 9))).encode()
    if r == 6:
        return (sign + "0" * rng.below(5) + str(rng.below(bound)) + "." + str(rng.below(1000))).encode()
    return (sign + str(rng.below(bound)) + "." + "".join(str(rng.below(10)) for _ in range(rng.below(12)))).encode()


def fix_gpos(rng, vals, env):
    vals[0] = g_floatstr(rng, 90)
    vals[1] = g_floatstr(rng, 180)
    vals[2] = g_floatstr(rng, 100000)
    return vals


def bad_gpos(rng, vals, env):
    i = rng.below(3)
    bound = [90, 180, None][i]
    pool = [b"", b"-", b"+", b".", b"1.2.3", b"1e5", b"abc", b"1 ", b"--1", b"1_0", b"\xb2", b"0x10", b"nan", b"inf", b"1..", b" 1"]
    if bound and rng.chance(1, 2):
        pool = []
    if bound:
        k = 47 if bound == 90 else 46
        pool += [str(bound + 1).encode(), b"-" + str(bound + 1).encode(), (str(bound) + ".0000000000001").encode(),
                 (str(bound) + "." + "0" * 13 + "1").encode(), b"9" * 40,
                 # exactly bound + 2^-k (a tie, rounds to the even neighbour = bound: accepted) and one digit more (rejected)
                 ]
    return [(i, rng.choice(pool))]


def fix_uri(rng, vals, env):
    if len(vals[2]) == 0:
        vals[2] = b"x"
    return vals


def fix_tsig(rng, vals, env):
    vals[5] = rng.choice([0, 1, 16, 17, 18, 4095, rng.below(4096)])
    return vals


# ---- custom types ---------------------------------------------------------------------------------
class Custom:
    custom = True

    def gen_bad(self, rng, env):
        return None

    def gen_raw(self, rng, env):
        return None

    def build_alt(self, cls, rdclass, rdtype, t, salt):
        return None


def gw_raw(rng, env):
    """(type octet, payload) of a gateway/relay field, type and payload not necessarily matching"""
    t = rng.choice([0, 1, 2, 3, 3, 4, 5, 127])
    pt = rng.choice([t, t, t, rng.below(4)])
    pay = b"" if pt == 0 else IP4().gen(rng, env) if pt == 1 else IP6().gen(rng, env) if pt == 2 else raw_name(g_name(rng, env), env["origin"])
    if rng.chance(1, 8):
        pay = pay[:-1] if pay else b"\0"
    return t, pay


def gw_gen(rng, env, t):
    if t == 0:
        return None
    if t == 1:
        return IP4().gen(rng, env)
    if t == 2:
        return IP6().gen(rng, env)
    return g_name(rng, env)


def gw_to_tree(t, g):
    if t == 0:
        return None
    if t == 1:
        return dns.ipv4.inet_aton(g)
    if t == 2:
        return dns.ipv6.inet_aton(g)
    return g


def gw_from_tree(t, g):
    if t == 0:
        return None
    if t == 1:
        return dns.ipv4.inet_ntoa(g)
    if t == 2:
        return dns.ipv6.inet_ntoa(g)
    return g


class AMTRELAY(Custom):
    custom = False  # the tree mirrors the wire fields; no post/pre in the model

    def gen(self, rng, env):
        t = rng.below(4)
        return ((u8.gen(rng, env), t | (rng.below(2) << 7)), gw_gen(rng, env, t))

    def tree(self, rd):
        return ((rd.precedence, rd.relay_type | (int(rd.discovery_optional) << 7)), gw_to_tree(rd.relay_type, rd.relay))

    def build(self, cls, rdclass, rdtype, t):
        (prec, b), g = t
        return cls(rdclass, rdtype, prec, bool(b >> 7), b & 0x7F, gw_from_tree(b & 0x7F, g))

    def gen_bad(self, rng, env):
        return ((u8.gen(rng, env), rng.choice([4, 5, 127, 0x84])), None)

    def gen_raw(self, rng, env):
        t, pay = gw_raw(rng, env)
        return bytes([u8.gen(rng, env), t | (rng.below(2) << 7)]) + pay


class IPSECKEY(Custom):
    custom = False

    def gen(self, rng, env):
        t = rng.below(4)
        return (((u8.gen(rng, env), t, u8.gen(rng, env)), gw_gen(rng, env, t)), rest.gen(rng, env))

    def tree(self, rd):
        return (((rd.precedence, rd.gateway_type, rd.algorithm), gw_to_tree(rd.gateway_type, rd.gateway)), bytes(rd.key))

    def build(self, cls, rdclass, rdtype, t):
        ((prec, gt, alg), g), key = t
        return cls(rdclass, rdtype, prec, gt, alg, gw_from_tree(gt, g), key)

    def gen_bad(self, rng, env):
        return (((u8.gen(rng, env), rng.choice([4, 5, 255]), 1), None), b"k")

    def gen_raw(self, rng, env):
        t, pay = gw_raw(rng, env)
        return bytes([u8.gen(rng, env), t, u8.gen(rng, env)]) + pay + rest.gen(rng, env)[:40]


class HIP(Custom):
    custom = False

    def gen(self, rng, env):
        hit = g_bytes(rng, 0, 255)
        key = g_bytes(rng, 0, 600)
        servers = [g_name(rng, env) for _ in range(rng.choice([0, 0, 1, 2, 3]))]
        return ((len(hit), u8.gen(rng, env), len(key)), hit, key, servers)

    def tree(self, rd):
        return ((len(rd.hit), rd.algorithm, len(rd.key)), bytes(rd.hit), bytes(rd.key), list(rd.servers))

    def build(self, cls, rdclass, rdtype, t):
        (lh, alg, lk), hit, key, servers = t
        if lh != len(hit) or lk != len(key):
            raise ValueError("inconsistent lengths")
        return cls(rdclass, rdtype, hit, alg, key, servers)

    def gen_bad(self, rng, env):
        hit = g_bytes(rng, n=256)
        return ((256, 1, 1), hit, b"k", [])

    def build_alt(self, cls, rdclass, rdtype, t, salt):
        (lh, alg, lk), hit, key, servers = t
        if len(servers) == 1:
            return cls(rdclass, rdtype, bytearray(hit), alg, bytearray(key), servers[0])
        return cls(rdclass, rdtype, bytearray(hit), alg, bytearray(key), tuple(servers))

    def gen_raw(self, rng, env):
        hit, key = g_bytes(rng, 0, 40), g_bytes(rng, 0, 300)
        lh = rng.choice([len(hit), len(hit), len(hit) + 1, max(0, len(hit) - 1), 255])
        lk = rng.choice([len(key), len(key), len(key) + 1, max(0, len(key) - 1), 65535])
        srv = b"".join(raw_name(g_name(rng, env), env["origin"]) for _ in range(rng.choice([0, 1, 2])))
        if rng.chance(1, 6):
            srv += rng.choice([b"\x01", b"\xc0", b"\x40a", b"\x00"])
        return bytes([lh & 0xFF, u8.gen(rng, env)]) + (lk & 0xFFFF).to_bytes(2, "big") + hit + key + srv


class LOC(Custom):
    def coord(self, rng, maxdeg):
        r = rng.below(8)
        if r == 0:
            return (maxdeg, 0, 0, 0, rng.below(2))
        if r == 1:
            return (0, 0, 0, rng.choice([0, 1]), rng.below(2))
        if r == 2:
            return (maxdeg - 1, 59, 59, 999, rng.below(2))
        if r == 3 and rng.chance(1, 6):
            return (maxdeg, rng.below(60), rng.below(60), rng.below(1000), rng.below(2))
        return (rng.below(maxdeg), rng.below(60), rng.below(60), rng.below(1000), rng.below(2))

    def size(self, rng):
        return rng.choice([0, 1, 9, 100, 100000, 9 * 10 ** 9, rng.below(10) * 10 ** rng.below(10)])

    def gen(self, rng, env):
        return (self.size(rng), self.size(rng), self.size(rng), self.coord(rng, 90), self.coord(rng, 180),
                rng.choice([0, 1, 10000000, 9999999, 2 ** 32 - 1, rng.below(2 ** 32)]))

    def gen_raw(self, rng, env):
        def coord(mid, span):
            r = rng.below(6)
            if r == 0:
                return mid + rng.choice([-1, 1]) * (span + rng.choice([0, 1, 2, 1000]))
            if r == 1:
                return mid + rng.choice([-1, 0, 1])
            if r == 2:
                return rng.choice([0, 2 ** 32 - 1, mid - span, mid + span, mid - span - 1, mid + span + 1])
            return mid - span + rng.below(2 * span + 1)

        def sz():
            return rng.choice([0x00, 0x12, 0x99, 0x9A, 0xA9, 0x0F, 0xF0, 0x90, 0x09, rng.below(256)])

        ver = rng.choice([0, 0, 0, 0, 1, 255])
        w = bytes([ver, sz(), sz(), sz()]) + coord(2 ** 31, 90 * 3600000).to_bytes(4, "big") + \
            coord(2 ** 31, 180 * 3600000).to_bytes(4, "big") + g_uint(rng, 32).to_bytes(4, "big")
        return w

    def tree(self, rd):
        def c(t):
            return (int(t[0]), int(t[1]), int(t[2]), int(t[3]), 1 if t[4] > 0 else 0)

        return (int(rd.size), int(rd.horizontal_precision), int(rd.vertical_precision), c(rd.latitude), c(rd.longitude),
                int(rd.altitude) + 10000000)

    def build(self, cls, rdclass, rdtype, t):
        size, hp, vp, lat, lon, alt = t

        def c(x):
            return (x[0], x[1], x[2], x[3], 1 if x[4] == 1 else -1)

        return cls(rdclass, rdtype, c(lat), c(lon), float(alt - 10000000), float(size), float(hp), float(vp))


class APL(Custom):
    def gen(self, rng, env):
        items = []
        for _ in range(rng.choice([0, 1, 1, 2, 4])):
            fam = rng.choice([1, 1, 2, 2, 0, 3, 65535])
            neg = rng.below(2)
            if fam == 1:
                addr = rng.choice([bytes(4), rng.bytes(4), rng.bytes(rng.below(4)) + bytes(4)])[:4]
                pl = rng.choice([0, 8, 24, 32, rng.below(33)])
            elif fam == 2:
                addr = (rng.choice([bytes(16), rng.bytes(16), rng.bytes(rng.below(16)) + bytes(16)]))[:16]
                pl = rng.choice([0, 64, 128, rng.below(129)])
            else:
                addr = g_bytes(rng, 0, 63)
                if addr.endswith(b"\0"):
                    addr = addr.rstrip(b"\0")  # canonical: the wire form strips trailing zero octets
                pl = u8.gen(rng, env)
            items.append((fam, pl, neg, addr))
        return items

    def gen_raw(self, rng, env):
        out = b""
        for _ in range(rng.choice([1, 1, 2, 3])):
            fam = rng.choice([1, 1, 2, 2, 0, 3, 65535])
            n = rng.choice([0, 1, 3, 4, 5, 15, 16, 17, 63, 64, 127])
            afd = rng.choice([rng.bytes(n), rng.bytes(max(0, n - 1)) + b"\0" * min(1, n), bytes(n)])
            pl = rng.choice([0, 32, 33, 128, 129, 255, rng.below(256)])
            ln = rng.choice([len(afd), len(afd), len(afd), len(afd) + 1, max(0, len(afd) - 1)])
            out += fam.to_bytes(2, "big") + bytes([pl, (ln & 0x7F) | (rng.below(2) << 7)]) + afd
        return out

    def tree(self, rd):
        out = []
        for it in rd.items:
            if it.family == 1:
                a = dns.ipv4.inet_aton(it.address)
            elif it.family == 2:
                a = dns.ipv6.inet_aton(it.address)
            else:
                a = binascii.unhexlify(it.address)
            out.append((int(it.family), int(it.prefix), int(it.negation), a))
        return out

    def build(self, cls, rdclass, rdtype, t):
        from dns.rdtypes.IN.APL import APLItem

        items = []
        for fam, pl, neg, a in t:
            if fam == 1:
                addr = dns.ipv4.inet_ntoa(a)
            elif fam == 2:
                addr = dns.ipv6.inet_ntoa(a)
            else:
                addr = binascii.hexlify(a)
            items.append(APLItem(fam, bool(neg), addr, pl))
        return cls(rdclass, rdtype, items)


UTF8_POOL = ["", "a", "blocked", "é", "€", "𝄞", "a\u0000b", "x" * 40, "߿ࠀ￿\U00010000\U0010ffff"]


class OPT(Custom):
    def gen_opt(self, rng, env):
        k = rng.choice([8, 8, 15, 15, 3, 10, 18, 22, 23, 24, 25, 0, 5, 12, 65535, rng.below(65536)])
        if k == 8:
            fam = rng.choice([1, 2])
            mx = 32 if fam == 1 else 128
            src = rng.choice([0, 1, 7, 8, 9, 24, mx - 1, mx, rng.below(mx + 1)])
            n = (src + 7) // 8
            addr = bytearray(rng.bytes(n))
            if src % 8 and n:
                addr[-1] &= (0xFF << (8 - src % 8)) & 0xFF
            return (8, (fam, src, rng.choice([0, mx, rng.below(mx + 1)])), bytes(addr))
        if k == 15:
            txt = rng.choice(UTF8_POOL).encode()
            if txt.endswith(b"\0"):
                txt = txt[:-1]
            return (15, u16.gen(rng, env), txt)
        if k == 10:
            return (10, rng.bytes(8), rng.choice([b"", rng.bytes(8), rng.bytes(32), rng.bytes(rng.range(8, 32))]))
        if k == 18:
            return (18, dns.name.Name(g_labels(rng, True)))
        if k in (22, 23, 24, 25):
            return (k, rng.choice(UTF8_POOL).encode())
        return (k, g_bytes(rng, 0, 300))

    def gen(self, rng, env):
        return [self.gen_opt(rng, env) for _ in range(rng.choice([0, 1, 1, 2, 3, 5]))]

    def raw_payload(self, rng, env, k, defect):
        """option body: valid but not necessarily canonical (unmasked ECS bits, NUL-terminated EDE text);
        with `defect` one constraint is broken"""
        bad_utf8 = [b"\xff", b"\xc0\x80", b"\xed\xa0\x80", b"\xf4\x90\x80\x80", b"\xe2\x82", b"\xf0\x80\x80\x80", b"a\x80",
                    b"\xc2", b"\xe0\x9f\xbf", b"\xf8\x88\x80\x80\x80", b"\xed\xbf\xbf", b"\xf0\x8f\xbf\xbf"]
        edge_utf8 = [b"\xef\xbf\xbf", b"\xf0\x90\x80\x80", b"\xf4\x8f\xbf\xbf", b"\xed\x9f\xbf", b"\xee\x80\x80", b"\xe0\xa0\x80",
                     b"\xc2\x80", b"\xdf\xbf", b"\x7f", b"\xe1\x80\x80", b"\xec\xbf\xbf", b"\xf1\x80\x80\x80", b"\xf3\xbf\xbf\xbf"]
        good = [x.encode() for x in UTF8_POOL] + edge_utf8
        if k == 8:
            fam = rng.choice([1, 2])
            mx = 32 if fam == 1 else 128
            src = rng.choice([0, 1, 4, 7, 8, 9, 20, 24, mx - 1, mx, rng.below(mx + 1)])
            scope = rng.choice([0, mx, rng.below(mx + 1)])
            n = (src + 7) // 8
            if defect:
                d = rng.below(5)
                if d == 0:
                    fam = rng.choice([0, 3, 65535])
                elif d == 1:
                    src = rng.choice([mx + 1, 255])
                    n = min((src + 7) // 8, 4 if fam == 1 else 16)
                elif d == 2:
                    scope = rng.choice([mx + 1, 255])
                elif d == 3:
                    n = max(0, n - 1)
                else:
                    n += 1
            return fam.to_bytes(2, "big") + bytes([src, scope]) + rng.bytes(n, [0xFF, 0xFF, 0x0F, 0xF0, 0x01, 0x80, 0xAA, 0x55])
        if k == 15:
            txt = rng.choice(good) + rng.choice([b"", b"", b"", b"\0"])
            if defect:
                return rng.choice([b"", b"\x00", b"\x00\x01" + rng.choice(bad_utf8), b"\x00\x01" + rng.choice(good) + b"\0\0"])
            return u16.gen(rng, env).to_bytes(2, "big") + txt
        if k == 10:
            if defect:
                return rng.bytes(rng.choice([0, 7, 9, 15, 41, 48]))
            return rng.bytes(rng.choice([8, 16, 17, 24, 39, 40]))
        if k == 18:
            return raw_name(dns.name.Name(g_labels(rng, True)), None) + (rng.choice([b"\0", b"x", b"\xc0\x00"]) if defect else b"")
        if k in (22, 23, 24, 25):
            return rng.choice(bad_utf8) if defect else rng.choice(good)
        return g_bytes(rng, 0, 40)

    def gen_raw(self, rng, env):
        out = b""
        n = rng.choice([1, 1, 2, 3])
        bad_at = rng.below(n) if rng.chance(2, 5) else -1
        for i in range(n):
            k = rng.choice([8, 8, 8, 15, 15, 3, 10, 10, 18, 22, 23, 24, 25, 0, 12])
            pay = self.raw_payload(rng, env, k, i == bad_at and rng.chance(3, 4))
            ln = len(pay)
            if i == bad_at and rng.chance(1, 4):
                ln = rng.choice([len(pay) + 1, max(0, len(pay) - 1)])
            out += k.to_bytes(2, "big") + ln.to_bytes(2, "big") + pay
        return out

    def tree(self, rd):
        out = []
        for o in rd.options:
            t = int(o.otype)
            if isinstance(o, dns.edns.ECSOption):
                out.append((t, (o.family, o.srclen, o.scopelen), bytes(o.addrdata)))
            elif isinstance(o, dns.edns.EDEOption):
                out.append((t, int(o.code), b"" if o.text is None else o.text.encode("utf8")))
            elif isinstance(o, dns.edns.NSIDOption):
                out.append((t, bytes(o.nsid)))
            elif isinstance(o, dns.edns.CookieOption):
                out.append((t, bytes(o.client), bytes(o.server)))
            elif isinstance(o, dns.edns.ReportChannelOption):
                out.append((t, o.agent_domain))
            elif isinstance(o, dns.edns.EDEExtraTextLanguageOption):
                out.append((t, o.language.encode("utf8")))
            elif isinstance(o, dns.edns.FilteringContactOption):
                out.append((t, o.contact.encode("utf8")))
            elif isinstance(o, dns.edns.FilteringOrganizationOption):
                out.append((t, o.organization.encode("utf8")))
            elif isinstance(o, dns.edns.FilteringDBOption):
                out.append((t, o.db.encode("utf8")))
            elif isinstance(o, dns.edns.GenericOption):
                out.append((t, bytes(o.data)))
            else:
                raise TypeError(f"option class without adapter: {type(o).__name__}")
        return out

    def build(self, cls, rdclass, rdtype, t):
        opts = []
        for it in t:
            k = it[0]
            if k == 8:
                _, (fam, src, scope), addr = it
                full = addr + bytes((4 if fam == 1 else 16) - len(addr))
                text = dns.ipv4.inet_ntoa(full) if fam == 1 else dns.ipv6.inet_ntoa(full)
                opts.append(dns.edns.ECSOption(text, src, scope))
            elif k == 15:
                opts.append(dns.edns.EDEOption(it[1], it[2].decode("utf8") if it[2] else None))
            elif k == 3:
                opts.append(dns.edns.NSIDOption(it[1]))
            elif k == 10:
                opts.append(dns.edns.CookieOption(it[1], it[2]))
            elif k == 18:
                opts.append(dns.edns.ReportChannelOption(it[1]))
            elif k == 22:
                opts.append(dns.edns.EDEExtraTextLanguageOption(it[1].decode("utf8")))
            elif k == 23:
                opts.append(dns.edns.FilteringContactOption(it[1].decode("utf8")))
            elif k == 24:
                opts.append(dns.edns.FilteringOrganizationOption(it[1].decode("utf8")))
            elif k == 25:
                opts.append(dns.edns.FilteringDBOption(it[1].decode("utf8")))
            else:
                opts.append(dns.edns.GenericOption(k, it[1]))
        return cls(rdclass, rdtype, opts)


class SVCB(Custom):
    def gen_param(self, rng, env, k, keys):
        if k == 0:
            others = sorted(x for x in keys if x != 0)
            n = rng.below(len(others) + 1)
            return [x for x in others if rng.chance(1, 2)][:n] if others else []
        if k in (1, 10):
            return [g_bytes(rng, 1, 255) for _ in range(rng.choice([0, 1, 2, 3]))]
        if k in (2, 8):
            return None
        if k == 3:
            return u16.gen(rng, env)
        if k == 4:
            return [IP4().gen(rng, env) for _ in range(rng.choice([0, 1, 2]))]
        if k == 6:
            return [IP6().gen(rng, env) for _ in range(rng.choice([0, 1, 2]))]
        return g_bytes(rng, 0, 200)

    def gen(self, rng, env):
        prio = rng.choice([0, 1, 1, 16, 65535])
        target = g_name(rng, env)
        if prio == 0:
            return (prio, target, [])
        keys = set(rng.choice([0, 1, 2, 3, 4, 5, 6, 7, 8, 9, 10, 11, 65280, 65535]) for _ in range(rng.choice([0, 1, 2, 3, 5, 8])))
        if 2 in keys:
            keys.add(1)
        return (prio, target, [(k, self.gen_param(rng, env, k, keys)) for k in sorted(keys)])

    def raw_param(self, rng, env, k, keys, defect):
        if k == 0:
            ks = sorted(set(x for x in keys if x != 0 and rng.chance(1, 2)))
            if defect:
                d = rng.below(4)
                if d == 0:
                    ks = ks + [rng.choice([9, 11, 65534])]  # listed but absent
                elif d == 1:
                    ks = [0] + ks
                elif d == 2 and ks:
                    ks = ks + [ks[-1]]
                elif ks and len(ks) >= 2:
                    ks = ks[::-1]
                else:
                    return b"\0"
            return b"".join(x.to_bytes(2, "big") for x in ks)
        if k in (1, 10):
            ids = [g_bytes(rng, 1, 20) for _ in range(rng.choice([0, 1, 2, 3]))]
            if defect:
                return b"".join(bytes([len(x)]) + x for x in ids) + rng.choice([b"\0", b"\x05ab", b"\xff"])
            return b"".join(bytes([len(x)]) + x for x in ids)
        if k in (2, 8):
            return rng.choice([b"\0", b"x"]) if defect else b""
        if k == 3:
            return rng.bytes(rng.choice([1, 3, 0])) if defect else rng.bytes(2)
        if k == 4:
            return rng.bytes(rng.choice([3, 5, 7])) if defect else rng.bytes(rng.choice([0, 4, 8]))
        if k == 6:
            return rng.bytes(rng.choice([15, 17, 1])) if defect else rng.bytes(rng.choice([0, 16, 32]))
        return g_bytes(rng, 0, 30)

    def gen_raw(self, rng, env):
        prio = rng.choice([1, 1, 1, 16, 65535])
        n = rng.choice([0, 1, 2, 3, 4, 6])
        keys = sorted(rng.choice([0, 0, 1, 1, 2, 3, 4, 5, 6, 7, 8, 10, 65535]) for _ in range(n))
        if 2 in keys and 1 not in keys:
            keys = sorted(keys + [1])
        # duplicates are legal on the wire (the last one wins)
        defect = rng.chance(2, 5)
        d = rng.below(8) if defect else -1
        if d >= 6:
            keys = sorted(set(keys) | {0})
        if d == 0:
            prio = 0 if keys else 1
        elif d == 1 and len(keys) >= 2:
            keys = keys[::-1] if keys[0] != keys[-1] else keys
        elif d == 2:
            keys = [k for k in keys if k != 1] + ([2] if 2 not in keys else [])
            keys = sorted(keys)
        elif rng.chance(1, 8):
            prio, keys = 0, []
        bad_at = rng.below(len(keys)) if (d >= 3 and keys) else -1
        if d >= 6:
            bad_at = 0
        out = prio.to_bytes(2, "big") + raw_name(g_name(rng, env), env["origin"])
        for i, k in enumerate(keys):
            pay = self.raw_param(rng, env, k, keys, i == bad_at and d in (3, 4, 6, 7))
            ln = len(pay)
            if i == bad_at and d == 5:
                ln = rng.choice([len(pay) + 1, max(0, len(pay) - 1)])
            out += k.to_bytes(2, "big") + ln.to_bytes(2, "big") + pay
        return out

    def ptree(self, k, p):
        import dns.rdtypes.svcbbase as sb

        if p is None:
            if k == 0 or k in (1, 10, 4, 6):
                return []
            if k in (2, 8):
                return None
            if k == 3:
                raise TypeError("port None")
            return b""
        if isinstance(p, sb.MandatoryParam):
            return [int(x) for x in p.keys]
        if isinstance(p, sb._StringList):
            return [bytes(x) for x in p.ids]
        if isinstance(p, sb.PortParam):
            return int(p.port)
        if isinstance(p, sb.IPv4HintParam):
            return [dns.ipv4.inet_aton(a) for a in p.addresses]
        if isinstance(p, sb.IPv6HintParam):
            return [dns.ipv6.inet_aton(a) for a in p.addresses]
        if isinstance(p, sb.ECHParam):
            return bytes(p.ech)
        if isinstance(p, sb.GenericParam):
            return bytes(p.value)
        raise TypeError(f"param class without adapter: {type(p).__name__}")

    def tree(self, rd):
        return (int(rd.priority), rd.target, [(int(k), self.ptree(int(k), rd.params[k])) for k in sorted(rd.params)])

    def build_alt(self, cls, rdclass, rdtype, t, salt):
        """the same parameters inserted in descending key order; the mandatory list descending and spelled as
        numbers, as names (`ipv4hint`), as `keyNNN`, as bytes, or mixed — spelling order differs from value order"""
        import dns.rdtypes.svcbbase as sb

        prio, target, ps = t
        if len(ps) < 2 and not any(k == 0 and len(v) > 1 for k, v in ps):
            return None

        def spell(k, j):
            m = (salt + j) % 5 if salt % 4 == 3 else salt % 4
            if m == 0:
                return k
            if m == 1:
                return sb.key_to_text(k)
            if m == 2:
                return f"key{k}"
            return sb.key_to_text(k).encode() if m == 3 else f"KEY{k}"

        def mand(v):
            return [spell(k, j) for j, k in enumerate(v[::-1])]

        self._mand = mand
        try:
            return self.build(cls, rdclass, rdtype, (prio, target, [(k, v) for k, v in ps[::-1]]))
        finally:
            self._mand = None

    _mand = None

    def build_text(self, c, t, tree, origin):
        """the same record through from_text, parameters in descending order, mandatory keys by name, descending;
        None when a value has no simple text form"""
        import base64

        import dns.rdtypes.svcbbase as sb

        prio, target, ps = tree
        if origin is not None or not target.is_absolute():
            return None
        words = []
        for k, v in ps[::-1]:
            name = sb.key_to_text(k)
            if k == 0:
                if not v:
                    return None
                words.append(name + "=" + ",".join((sb.key_to_text(x) if (x + len(ps)) % 2 else f"key{x}") for x in v[::-1]))
            elif k in (1, 10):
                if not v or not all(x.isalnum() and x.isascii() for x in v):
                    return None
                words.append(name + "=" + ",".join(x.decode() for x in v))
            elif k in (2, 8):
                words.append(name)
            elif k == 3:
                words.append(f"{name}={v}")
            elif k == 4:
                if not v:
                    return None
                words.append(name + "=" + ",".join(dns.ipv4.inet_ntoa(a) for a in v))
            elif k == 6:
                if not v:
                    return None
                words.append(name + "=" + ",".join(dns.ipv6.inet_ntoa(a) for a in v))
            elif k == 5:
                if not v:
                    return None
                words.append(name + "=" + base64.b64encode(v).decode())
            else:
                if v and not (v.isalnum() and v.isascii()):
                    return None
                words.append(name + (("=" + v.decode()) if v else ""))
        return dns.rdata.from_text(c, t, f"{prio} {target.to_text()} " + " ".join(words))

    def build(self, cls, rdclass, rdtype, t):
        import dns.rdtypes.svcbbase as sb

        prio, target, ps = t
        params = {}
        for k, v in ps:
            if k == 0:
                p = sb.MandatoryParam(self._mand(v) if self._mand else v)
            elif k == 1:
                p = sb.ALPNParam(tuple(v)) if v else None
            elif k == 10:
                p = sb.DoCPathParam(tuple(v)) if v else None
            elif k in (2, 8):
                p = None
            elif k == 3:
                p = sb.PortParam(v)
            elif k == 4:
                p = sb.IPv4HintParam(tuple(dns.ipv4.inet_ntoa(a) for a in v))
            elif k == 6:
                p = sb.IPv6HintParam(tuple(dns.ipv6.inet_ntoa(a) for a in v))
            elif k == 5:
                p = sb.ECHParam(v)
            else:
                p = sb.GenericParam(v) if v else None
            params[sb.ParamKey.make(k)] = p
        return cls(rdclass, rdtype, prio, target, params)


DS_T = {1: 20, 2: 32, 3: 32, 4: 48}
CDS_T = dict(DS_T)
CDS_T[0] = 1
ALG = U(8, [0, 1, 5, 8, 13, 15, 253, 255])

MX = Spec([("preference", u16), ("exchange", NM())])
TXTS = Spec([("strings", STRINGS())], bad=lambda rng, vals, env: [(0, [b"x" * 256]), (0, [])])
DNSKEYS = Spec([("flags", U(16, [0, 256, 257, 0x8000, 0xC000])), ("protocol", U(8, [3])), ("algorithm", ALG), ("key", rest)])
DSS = lambda tb: Spec([("key_tag", u16), ("algorithm", ALG), ("digest_type", u8), ("digest", rest)], fix=fix_ds(tb), bad=bad_ds(tb))
TLSAS = Spec([("usage", u8), ("selector", u8), ("mtype", u8), ("cert", rest)])
RRSIGS = Spec([("type_covered", u16), ("algorithm", ALG), ("labels", u8), ("original_ttl", u32), ("expiration", u32),
               ("inception", u32), ("key_tag", u16), ("signer", NM()), ("signature", rest)])
NSS = Spec([("target", NM())])
B64S = lambda attr: Spec([(attr, rest)])

SPECS = {
    (ANY, 18): MX, (ANY, 260): AMTRELAY(), (ANY, 258): TXTS, (ANY, 68): B64S("value"),
    (ANY, 257): Spec([("flags", u8), ("tag", c8), ("value", rest)], fix=fix_caa, bad=bad_caa),
    (ANY, 60): DNSKEYS, (ANY, 59): DSS(CDS_T), (ANY, 37): Spec([("certificate_type", u16), ("key_tag", u16), ("algorithm", u8), ("certificate", rest)]),
    (ANY, 5): NSS, (ANY, 62): Spec([("serial", u32), ("flags", u16), ("windows", BITMAP())]),
    (ANY, 32769): DSS(DS_T), (ANY, 39): NSS, (ANY, 48): DNSKEYS, (ANY, 43): DSS(DS_T),
    (ANY, 66): Spec([("rrtype", u16), ("scheme", u8), ("port", u16), ("target", NM())]),
    (ANY, 108): Spec([("eui", B(n=6))]), (ANY, 109): Spec([("eui", B(n=8))]),
    (ANY, 27): Spec([("latitude", c8), ("longitude", c8), ("altitude", c8)], fix=fix_gpos, bad=bad_gpos),
    (ANY, 67): B64S("value"), (ANY, 13): Spec([("cpu", c8), ("os", c8)]), (ANY, 55): HIP(),
    (ANY, 20): Spec([("address", c8), ("subaddress", B(0, 255, fmt="oc8"))]), (ANY, 25): DNSKEYS,
    (ANY, 105): Spec([("preference", u16), ("locator32", IP4())]), (ANY, 106): Spec([("preference", u16), ("locator64", HEX64())]),
    (ANY, 29): LOC(), (ANY, 107): Spec([("preference", u16), ("fqdn", NM())]), (ANY, 15): MX,
    (ANY, 104): Spec([("preference", u16), ("nodeid", HEX64())]), (ANY, 56): TXTS, (ANY, 2): NSS,
    (ANY, 47): Spec([("next", NM()), ("windows", BITMAP())]),
    (ANY, 50): Spec([("algorithm", u8), ("flags", u8), ("iterations", u16), ("salt", c8), ("next", c8), ("windows", BITMAP())]),
    (ANY, 51): Spec([("algorithm", u8), ("flags", u8), ("iterations", u16), ("salt", c8)]),
    (ANY, 61): B64S("key"), (ANY, 41): OPT(), (ANY, 12): NSS, (ANY, 261): TXTS,
    (ANY, 17): Spec([("mbox", NM()), ("txt", NM())]), (ANY, 46): RRSIGS, (ANY, 21): MX, (ANY, 24): RRSIGS, (ANY, 53): TLSAS,
    (ANY, 6): Spec([("mname", NM()), ("rname", NM()), ("serial", u32), ("refresh", u32), ("retry", u32), ("expire", u32), ("minimum", u32)]),
    (ANY, 99): TXTS, (ANY, 44): Spec([("algorithm", u8), ("fp_type", u8), ("fingerprint", rest)]),
    (ANY, 249): Spec([("algorithm", NM()), ("inception", u32), ("expiration", u32), ("mode", u16), ("error", u16), ("key", c16), ("other", c16)]),
    (ANY, 52): TLSAS,
    (ANY, 250): Spec([("algorithm", NMABS()), ("time_signed", u48), ("fudge", u16), ("mac", c16), ("original_id", u16), ("error", u16), ("other", c16)],
                     fix=fix_tsig, bad=lambda rng, vals, env: [(5, rng.choice([4096, 65535]))]),
    (ANY, 16): TXTS,
    (ANY, 256): Spec([("priority", u16), ("weight", u16), ("target", rest)], fix=fix_uri, bad=lambda rng, vals, env: [(2, b"")]),
    (ANY, 262): TXTS, (ANY, 19): Spec([("address", c8)]),
    (ANY, 63): Spec([("serial", u32), ("scheme", u8), ("hash_algorithm", u8), ("digest", rest)], fix=fix_zonemd, bad=bad_zonemd),
    (1, 1): Spec([("address", IP4())]), (1, 28): Spec([("address", IP6())]), (1, 42): APL(), (1, 49): B64S("data"),
    (1, 65): SVCB(), (1, 45): IPSECKEY(), (1, 36): MX,
    (1, 35): Spec([("order", u16), ("preference", u16), ("flags", c8), ("service", c8), ("regexp", c8), ("replacement", NM())]),
    (1, 22): B64S("address"), (1, 23): NSS, (1, 26): Spec([("preference", u16), ("map822", NM()), ("mapx400", NM())]),
    (1, 33): Spec([("priority", u16), ("weight", u16), ("port", u16), ("target", NM())]), (1, 64): SVCB(),
    (1, 11): Spec([("address", IP4()), ("protocol", u8), ("bitmap", rest)]),
    (3, 1): Spec([("domain", NM()), ("address", u16)]),
}
GENERIC = Spec([("data", rest)])

# per-type proof status reported in the evidence (see lean/Props/C02.lean)
CUSTOM_STATUS = {
    (ANY, 29): "proved (loc_fixpoint; round trip for the values the decoder accepts back; constructor gap at 90/180 degrees repaired in the tree: loc_ctor_within_wire_range)",
    (ANY, 41): "proved (opt_fixpoint over every decodable option list; the as-shipped EDE variant is retained and refuted)",
    (1, 42): "proved (apl_fixpoint: the encoding is a fixed point; stored address modulo trailing zero octets)",
    (1, 64): "proved (svcb_fixpoint)",
    (1, 65): "proved (svcb_fixpoint)",
}
NO_REL_DECODE = {(ANY, 250)}  # TSIG: get_name() without origin


def probe_variant():
    """replay the witness of the recorded defect to learn which variant the code implements"""
    global VARIANT
    VARIANT = 0
    try:
        b = bytes.fromhex("000f00050003610000")
        rd = dns.rdata.from_wire(4096, 41, b, 0, len(b))
        if rd.options[0].text == "a":
            VARIANT = 1
    except Exception:  # noqa: BLE001
        pass
    return VARIANT


def implemented():
    import harness.extract_C02 as ex

    return ex.implemented_types()


def spec_for(c, t):
    """what dns.rdata.get_rdata_class(c, t) should dispatch to, and the harness adapter for it"""
    if (c, t) in SPECS:
        return (c, t), SPECS[(c, t)]
    if (ANY, t) in SPECS:
        return (ANY, t), SPECS[(ANY, t)]
    return None, GENERIC


# ------------------------------------------------------------------------------------------------
# evaluation
# ------------------------------------------------------------------------------------------------
# ------------------------------------------------------------------------------------------------
# dispatch: which codec `dns.rdata.get_rdata_class` / `from_wire` / `from_text` choose for a (class, type) pair,
# in a fresh interpreter, in several global configurations (load_all_types mutates module state)
# ------------------------------------------------------------------------------------------------
DISPATCH_MODES = ["default", "load_all", "load_all_dynamic", "register"]
DISPATCH_CLASSES = [1, 3, 4, 255, 254, 65280]
DISPATCH_SCRIPT = r"""
import sys, json
req = json.load(sys.stdin)
sys.path.insert(0, req["repo"])
import dns.rdata, dns.rdataclass, dns.rdatatype, dns.name, dns.exception, dns.rdtypes.txtbase
mode = req["mode"]
extra = []
def cname(k):
    return k.__module__ + ":" + k.__name__
if mode == "load_all":
    dns.rdata.load_all_types()
elif mode == "load_all_dynamic":
    dns.rdata.load_all_types(disable_dynamic_load=False)
elif mode == "register":
    class PRIVX(dns.rdtypes.txtbase.TXTBase):
        pass
    class PRIVY(dns.rdtypes.txtbase.TXTBase):
        pass
    dns.rdata.register_type(PRIVX, 65280, "PRIVX")
    dns.rdata.register_type(PRIVY, 65281, "PRIVY", rdclass=dns.rdataclass.ANY)
    for args in ((PRIVX, 65280, "PRIVX"), (PRIVX, 15, "MX"), (PRIVY, 65281, "PRIVY", False, dns.rdataclass.ANY), (PRIVX, 41, "OPT")):
        try:
            dns.rdata.register_type(*args)
            extra.append("registered")
        except dns.rdata.RdatatypeExists:
            extra.append("RdatatypeExists")
        except Exception as e:
            extra.append("ERR:" + type(e).__name__)
    for c, t in ((1, 65280), (3, 65280), (255, 65280), (1, 65281), (3, 65281), (4, 65281), (65280, 65281)):
        extra.append(cname(dns.rdata.get_rdata_class(dns.rdataclass.RdataClass.make(c), dns.rdatatype.RdataType.make(t))))
    for c, t in ((1, 65280), (3, 65281)):
        w = bytes.fromhex("0161024142")
        rd = dns.rdata.from_wire(c, t, w, 0, len(w))
        rd2 = dns.rdata.from_text(c, t, rd.to_text())
        extra.append(cname(type(rd)) + " " + rd.to_wire().hex() + " " + str(rd2 == rd) + " " + dns.rdatatype.to_text(dns.rdatatype.RdataType.make(t)))
hist = []
for op in req.get("ops", []):
    if op[0] == "L":
        dns.rdata.load_all_types(bool(op[1]))
    else:
        try:
            k = dns.rdata.get_rdata_class(dns.rdataclass.RdataClass.make(op[1]), dns.rdatatype.RdataType.make(op[2]), bool(op[3]))
            hist.append("-" if k is None else cname(k))
        except Exception as e:
            hist.append("ERR:" + type(e).__name__)
classes = []
for c, t in req["pairs"]:
    try:
        k = dns.rdata.get_rdata_class(dns.rdataclass.RdataClass.make(c), dns.rdatatype.RdataType.make(t))
        classes.append(cname(k))
    except Exception as e:
        classes.append("ERR:" + type(e).__name__)
samples = []
for c, t, w, o in req["samples"]:
    origin = None if o is None else dns.name.Name([bytes.fromhex(x) for x in o])
    w = bytes.fromhex(w)
    try:
        rd = dns.rdata.from_wire(c, t, w, 0, len(w), origin)
        row = [cname(type(rd)), rd.to_digestable(origin).hex(), rd.to_wire(origin=origin).hex()]
    except Exception as e:
        row = ["ERR:" + type(e).__name__, "", ""]
    if o is None:
        try:
            rt = dns.rdata.from_text(c, t, "\\# %d %s" % (len(w), w.hex()))
            row.append(cname(type(rt)))
        except Exception as e:
            row.append("ERR:" + type(e).__name__)
    else:
        row.append("-")
    samples.append(row)
late = []
for c, t in req.get("late", []):
    try:
        k = dns.rdata.get_rdata_class(dns.rdataclass.RdataClass.make(c), dns.rdatatype.RdataType.make(t))
        late.append(cname(k))
    except Exception as e:
        late.append("ERR:" + type(e).__name__)
print(json.dumps({"classes": classes, "samples": samples, "extra": extra, "late": late, "hist": hist}))
"""
REGISTER_EXPECTED = [
    "RdatatypeExists", "RdatatypeExists", "RdatatypeExists", "RdatatypeExists",
    "__main__:PRIVX", "dns.rdata:GenericRdata", "dns.rdata:GenericRdata", "__main__:PRIVY", "__main__:PRIVY", "__main__:PRIVY", "__main__:PRIVY",
    "__main__:PRIVX 0161024142 True PRIVX", "__main__:PRIVY 0161024142 True PRIVY",
]
_MODULE_FILES = None


def expected_codec(c, t):
    """the documented dispatch rule read off the directory tree: dns/rdtypes/<CLASS>/<TYPE>.py, then ANY, then generic"""
    global _MODULE_FILES
    if _MODULE_FILES is None:
        import harness.extract_C02 as ex

        _MODULE_FILES = set(ex.module_files())
    if (c, t) in _MODULE_FILES:
        return (c, t)
    if (ANY, t) in _MODULE_FILES:
        return (ANY, t)
    return None


def codec_line(name):
    """`module:class` -> the driver's `<directory class> <mnemonic>`"""
    if name == "dns.rdata:GenericRdata":
        return "g GENERIC"
    mod, _, cls = name.partition(":")
    parts = mod.split(".")
    if len(parts) == 4 and parts[:2] == ["dns", "rdtypes"]:
        d = {"ANY": ANY, "IN": 1, "CH": 3}.get(parts[2], parts[2])
        return f"{d} {cls}"
    return name


def run_dispatch(mode, pairs, samples, late=(), ops=()):
    from harness.core import REPO

    req = {"repo": REPO, "mode": mode, "pairs": pairs, "samples": samples, "late": list(late), "ops": list(ops)}
    p = subprocess.run([sys.executable, "-c", DISPATCH_SCRIPT], input=json.dumps(req).encode(), capture_output=True, timeout=300)
    if p.returncode != 0:
        return None, p.stderr.decode()[-600:]
    return json.loads(p.stdout.decode().strip().split("\n")[-1]), ""


def hist_token(name, t):
    """`module:class` of one history answer -> the driver's `<dir>/<type>` | g | -"""
    if name == "-":
        return "-"
    line = codec_line(name)
    if line == "g GENERIC":
        return "g"
    return f"{line.split(' ')[0]}/{t}"


def eval_history(ctx: Ctx, case: dict):
    """a call sequence of get_rdata_class / load_all_types in a fresh interpreter, against the state-machine model
    and against the stateless rule"""
    ops = case["ops"]
    rep = {"kind": "dispatch", "case": case}
    res, err = run_dispatch("default", [], [], (), ops)
    if res is None:
        ctx.fail("C02/dispatch/history/crash", f"history probe failed: {err}", rep)
        return
    gets = [op for op in ops if op[0] == "g"]
    toks = [hist_token(n, op[2]) for n, op in zip(res["hist"], gets)]
    line = " ".join(f"g:{op[1]}:{op[2]}:{op[3]}" if op[0] == "g" else f"L:{op[1]}" for op in ops)
    ctx.corr("c02.dispatchseq " + line, " ".join(toks), case)
    ctx.count("dispatch.history")
    for i, (op, tok) in enumerate(zip(gets, toks)):
        if not op[3]:
            continue
        exp = expected_codec(op[1], op[2])
        want = "g" if exp is None else f"{exp[0]}/{exp[1]}"
        if tok != want:
            upto = ops[: ops.index(op) + 1] if ops.count(op) == 1 else ops
            ctx.fail(f"C02/dispatch/history/wrong-codec/{'generic' if exp is None else str(exp[0]) + '-' + str(exp[1])}",
                     f"after {len(upto) - 1} earlier calls get_rdata_class({op[1]}, {op[2]}) chose {tok}; the module tree says {want}",
                     {"kind": "dispatch", "case": {"kind": "dispatch", "mode": "history", "ops": upto}})
            break


def gen_history(ctx: Ctx, rng):
    impl = implemented()
    own = [k for k in impl if k[0] != ANY]
    anyt = [k for k in impl if k[0] == ANY]
    for _ in range(6):
        ops = []
        focus = [rng.choice(own)[1] for _ in range(2)] + [rng.choice(anyt)[1] for _ in range(2)] + [rng.choice([0, 3, 251, 65280, 1000])]
        for _ in range(rng.choice([6, 12, 25, 40])):
            r = rng.below(10)
            if r == 0:
                ops.append(["L", rng.below(2)])
            else:
                t = rng.choice(focus) if r < 8 else rng.choice(impl)[1]
                ops.append(["g", rng.choice(DISPATCH_CLASSES), t, 1 if rng.chance(3, 4) else 0])
        case = {"kind": "dispatch", "mode": "history", "ops": ops}
        ctx.case(("dispatch-history", str(ops)), sample=case)
        eval_history(ctx, case)


def eval_dispatch(ctx: Ctx, case: dict):
    if case.get("mode") == "history":
        eval_history(ctx, case)
        return
    mode, pairs, samples = case["mode"], case["pairs"], case["samples"]
    late = case.get("late", [])
    rep = {"kind": "dispatch", "case": case}
    res, err = run_dispatch(mode, pairs, samples, late)
    if res is None:
        ctx.fail(f"C02/dispatch/{mode}/crash", f"dispatch probe in a fresh interpreter failed in mode {mode}: {err}", rep)
        return
    ctx.count("dispatch.mode." + mode)
    # trigger class of a recorded defect: a lookup in class ANY (255) of a type whose module is class specific caches the
    # generic fallback in the class-independent slot, and every later lookup of that type gets GenericRdata
    shadowed = set()
    KNOWN_SHADOW = "C02/dispatch/generic-after-class-ANY-lookup-of-class-specific-type"
    for (c, t), name in zip(list(pairs) + list(late), res["classes"] + res.get("late", [])):
        one = {"kind": "dispatch", "mode": mode, "pairs": [[c, t]], "samples": []}
        line = codec_line(name)
        e0 = expected_codec(c, t)
        if t in shadowed and e0 is not None and e0[0] != ANY and line == "g GENERIC":
            prior = [[255, t], [c, t]]
            ctx.fail(KNOWN_SHADOW, f"get_rdata_class({c}, {t}) returns GenericRdata once get_rdata_class(ANY, {t}) has been called "
                     f"(the generic fallback is cached under (ANY, {t}), which is also the class-independent slot)",
                     {"kind": "dispatch", "case": {"kind": "dispatch", "mode": mode, "pairs": prior, "samples": []}})
            continue
        if c == 255 and e0 is None and (expected_codec(1, t) is not None or expected_codec(3, t) is not None):
            shadowed.add(t)
        if not (mode == "register" and t in (65280, 65281)):
            ctx.corr(f"c02.dispatch {c} {t}", line, one)
        exp = expected_codec(c, t)
        want = "g GENERIC" if exp is None else None
        if exp is not None:
            want_dir = exp[0]
            ok = line.split(" ")[0] == str(want_dir) and not line.startswith("g ")
        else:
            ok = line == want or (mode == "register" and t in (65280, 65281))
        ctx.count("dispatch.pairs")
        if not ok:
            ctx.fail(f"C02/dispatch/{mode}/wrong-codec/{'generic' if exp is None else str(exp[0]) + '-' + str(exp[1])}",
                     f"get_rdata_class({c}, {t}) in mode {mode} chose {name}; the module tree says "
                     f"{'GenericRdata' if exp is None else 'dns/rdtypes/' + {255: 'ANY', 1: 'IN', 3: 'CH'}.get(exp[0], str(exp[0]))}", {"kind": "dispatch", "case": one})
    shadowed_before_samples = set(t for (c, t) in pairs if c == 255 and expected_codec(c, t) is None
                                  and (expected_codec(1, t) is not None or expected_codec(3, t) is not None))
    for (c, t, w, o), row, exp_row in zip(samples, res["samples"], case.get("expect", [])):
        one = {"kind": "dispatch", "mode": mode, "pairs": [], "samples": [[c, t, w, o]], "expect": [exp_row]}
        ctx.count("dispatch.samples")
        if t in shadowed_before_samples and row[0] == "dns.rdata:GenericRdata" and exp_row[0] != row[0]:
            ctx.fail(KNOWN_SHADOW, f"from_wire({c}, {t}, {w}) builds a GenericRdata (not equal to the {exp_row[0]} it encodes) once "
                     f"get_rdata_class(ANY, {t}) has been called", {"kind": "dispatch", "case": {
                         "kind": "dispatch", "mode": mode, "pairs": [[255, t]], "samples": [[c, t, w, o]], "expect": [exp_row]}})
            continue
        if row[0] != exp_row[0] or (row[3] not in ("-", exp_row[0])):
            ctx.fail(f"C02/dispatch/{mode}/wrong-codec-from_wire/{c}-{t}",
                     f"from_wire/from_text({c}, {t}, {w}) in mode {mode} built {row[0]} / {row[3]}, expected {exp_row[0]}", {"kind": "dispatch", "case": one})
        elif row[1] != exp_row[1] or row[2] != exp_row[2]:
            ctx.fail(f"C02/dispatch/{mode}/record-differs/{c}-{t}",
                     f"from_wire({c}, {t}, {w}) in mode {mode}: canonical form / re-encoding differ from the record decoded in the default configuration", {"kind": "dispatch", "case": one})
    if mode == "register":
        if res["extra"] != REGISTER_EXPECTED:
            ctx.fail("C02/dispatch/register/outcome", f"register_type sequence gave {res['extra']}", rep)


def gen_dispatch(ctx: Ctx, rng):
    impl = implemented()
    pairs = [[c, t] for (_, t) in impl for c in DISPATCH_CLASSES]
    for t in [0, 3, 7, 100, 251, 255, 1000, 65279, 65534]:
        pairs += [[c, t] for c in (1, 3, 255)]
    samples, expect = [], []
    for key in impl:
        spec = SPECS.get(key)
        if spec is None:
            continue
        for _ in range(2):
            c = rng.choice([3, 4, 254, 65280, 1, 255]) if key[0] == ANY else key[0]
            if key[1] == 41:
                c = rng.choice([512, 1232, 4096])
            o = rng.choice([None, None, ["4578", "636f4d", ""]])
            env = {"origin": mkorigin(o)}
            try:
                tree = spec.gen(rng, env)
                cls = dns.rdata.get_rdata_class(dns.rdataclass.RdataClass.make(c), dns.rdatatype.RdataType.make(key[1]))
                rd = spec.build(cls, c, key[1], tree)
                w = rd.to_wire(origin=env["origin"])
                rd2 = dns.rdata.from_wire(c, key[1], w, 0, len(w), env["origin"])
                samples.append([c, key[1], w.hex(), o])
                expect.append([type(rd2).__module__ + ":" + type(rd2).__name__, rd2.to_digestable(env["origin"]).hex(), rd2.to_wire(origin=env["origin"]).hex()])
            except Exception:  # noqa: BLE001
                continue
    def late_pair(p):
        c, t = p
        return c == 255 and expected_codec(c, t) is None and (expected_codec(1, t) is not None or expected_codec(3, t) is not None)

    late = [p for p in pairs if late_pair(p)]
    pairs = [p for p in pairs if not late_pair(p)]
    for mode in DISPATCH_MODES:
        case = {"kind": "dispatch", "mode": mode, "pairs": rng.shuffle(pairs), "samples": samples, "expect": expect,
                "late": rng.shuffle(late)}
        ctx.case(("dispatch", mode, len(pairs)), sample=None)
        eval_dispatch(ctx, case)
    # the order the probes above avoid: class ANY first, then the class that owns the module (recorded defect)
    own = [k for k in impl if k[0] != ANY]
    k = rng.choice(own)
    idx = [i for i, sm in enumerate(samples) if sm[1] == k[1] and sm[0] == k[0]]
    case = {"kind": "dispatch", "mode": "default", "pairs": [[255, k[1]], [k[0], k[1]]],
            "samples": [samples[i] for i in idx], "expect": [expect[i] for i in idx]}
    ctx.case(("dispatch", "class-any-first", k), sample=case)
    eval_dispatch(ctx, case)


def mkorigin(o):
    return None if o is None else dns.name.Name([bytes.fromhex(x) for x in o])


def enc_origin(o):
    return "none" if o is None else enc_labels([bytes.fromhex(x) for x in o])


def impl_decode(c, t, buf, cur, rdlen, origin):
    """from_wire through an explicit parser, so that exact consumption can be checked independently of restrict_to"""
    parser = dns.wire.Parser(buf, cur)
    end_before = parser.end
    try:
        with parser.restrict_to(rdlen):
            rd = dns.rdata.from_wire_parser(c, t, parser, origin)
    except Exception as e:
        # state left behind after an error: the limit of the enclosing parser must be back in place
        e.c02_end_restored = parser.end == end_before
        raise
    return rd, parser.current, parser.end == end_before


def tweak(tree):
    """a tree differing from `tree` in one non-name leaf (first integer or octet string found), or None"""
    done = [False]

    def go(x):
        if done[0]:
            return x
        if isinstance(x, bool) or x is None or isinstance(x, dns.name.Name):
            return x
        if isinstance(x, int):
            done[0] = True
            return x ^ 1
        if isinstance(x, (bytes, bytearray)):
            if len(x) == 0:
                return x
            done[0] = True
            return bytes(x[:-1]) + bytes([x[-1] ^ 0x01])
        if isinstance(x, tuple):
            return tuple(go(y) for y in x)
        if isinstance(x, list):
            return [go(y) for y in x]
        return x

    out = go(tree)
    return out if done[0] else None


def swapcase_names(tree):
    if isinstance(tree, dns.name.Name):
        return dns.name.Name([bytes(l).swapcase() for l in tree.labels])
    if isinstance(tree, tuple):
        return tuple(swapcase_names(x) for x in tree)
    if isinstance(tree, list):
        return [swapcase_names(x) for x in tree]
    return tree


def derel(tree, origin):
    if isinstance(tree, dns.name.Name):
        return tree if tree.is_absolute() else tree.concatenate(origin)
    if isinstance(tree, tuple):
        return tuple(derel(x, origin) for x in tree)
    if isinstance(tree, list):
        return [derel(x, origin) for x in tree]
    return tree


def bitmap_text_route(c, t, tree, origin, salt):
    """NSEC / NSEC3 / CSYNC through from_text with the type mnemonics unsorted, duplicated and partly as TYPEnnn
    (`Bitmap.from_rdtypes` sorts and dedups); None when the windows are not what from_rdtypes produces"""
    import base64

    windows = tree[-1] if isinstance(tree, tuple) else None
    if origin is not None or not isinstance(windows, list) or not windows:
        return None
    codes = []
    for wn, bm in windows:
        if not bm or bm[-1] == 0:
            return None
        for i, byte in enumerate(bm):
            for j in range(8):
                if byte & (0x80 >> j):
                    codes.append(wn * 256 + i * 8 + j)
    if 0 in codes or len(codes) > 40:
        return None
    words = [(dns.rdatatype.to_text(dns.rdatatype.RdataType.make(x)) if (x + salt) % 3 else f"TYPE{x}") for x in codes[::-1]]
    words += words[: 1 + salt % 2]  # duplicates
    if salt % 2:
        words = words[1:] + words[:1]
    types = " ".join(words)
    if t == 47:
        if not tree[0].is_absolute():
            return None
        text = f"{tree[0].to_text()} {types}"
    elif t == 62:
        text = f"{tree[0]} {tree[1]} {types}"
    else:
        alg, flags, it, salt_b, nxt, _ = tree
        if not nxt:
            return None
        b32 = base64.b32encode(nxt).decode().rstrip("=").translate(str.maketrans("ABCDEFGHIJKLMNOPQRSTUVWXYZ234567", "0123456789ABCDEFGHIJKLMNOPQRSTUV"))
        text = f"{alg} {flags} {it} {salt_b.hex() if salt_b else '-'} {b32} {types}"
    return dns.rdata.from_text(c, t, text)


def extra_value_oracle(ctx, case, rep, spec, cls, c, t, tree, rd, w, origin, sigt, tname):
    """second routes that must agree with the first: other argument forms, the generic form, == / != on records
    that differ"""
    salt = len(w)
    # (a) the same value through other accepted constructor argument forms
    try:
        alt = spec.build_alt(cls, c, t, tree, salt)
    except Exception as e:  # noqa: BLE001
        alt = None
        ctx.fail(f"C02/constructor/alternate-argument-form-rejected:{type(e).__name__}/{sigt}",
                 f"{tname} {case['tree']}: a value accepted as bytes/Name/tuple is rejected as bytearray/str/ipaddress/single item", rep)
    if alt is not None:
        ctx.count("val.alt-route")
        if alt.to_wire(origin=origin) != w or not (alt == rd) or alt != rd:
            ctx.fail(f"C02/constructor/alternate-argument-form-differs/{sigt}",
                     f"{tname} {case['tree']}: the same value given in another accepted form encodes or compares differently", rep)
    # (a') the text route of the types whose constructors normalise (sort, dedup) what they are given
    rt = None
    try:
        if hasattr(spec, "build_text"):
            rt = spec.build_text(c, t, tree, origin)
        elif t in (47, 50, 62) and not spec.custom and spec is not GENERIC:
            rt = bitmap_text_route(c, t, tree, origin, salt)
    except Exception as e:  # noqa: BLE001
        ctx.fail(f"C02/text-route/rejected:{type(e).__name__}/{sigt}",
                 f"{tname} {case['tree']}: the same value written as text (keys/types unsorted, by name and by number) is rejected: {e}", rep)
    if rt is not None:
        ctx.count("val.text-route")
        try:
            wt = rt.to_wire(origin=origin)
            back = dns.rdata.from_wire(c, t, wt, 0, len(wt), origin)
            if wt != w or not (rt == rd) or not (back == rt):
                ctx.fail(f"C02/text-route/differs/{sigt}", f"{tname} {case['tree']}: built from text it encodes to {wt.hex()} instead of {w.hex()}", rep)
        except dns.exception.DNSException as e:
            ctx.fail(f"C02/text-route/decode-rejects-own-encoding/{sigt}",
                     f"{tname} {case['tree']}: the record built from text encodes to octets from_wire rejects ({type(e).__name__})", rep)
    # (b) RFC 3597 generic form of a known record
    try:
        g = rd.to_generic(origin)
        if not isinstance(g, dns.rdata.GenericRdata) or bytes(g.data) != w or g.to_wire() != w or g.rdtype != rd.rdtype or g.rdclass != rd.rdclass:
            ctx.fail(f"C02/to_generic/differs/{sigt}", f"{tname} {case['tree']}: to_generic(origin) does not carry to_wire(origin)", rep)
    except Exception as e:  # noqa: BLE001
        ctx.fail(f"C02/to_generic/raises:{type(e).__name__}/{sigt}", f"{tname} {case['tree']}: to_generic(origin) raised", rep)
    # (c) a record differing in one field is not equal
    tw = tweak(tree)
    if tw is not None:
        try:
            rd_b = spec.build(cls, c, t, tw)
            w_b = rd_b.to_wire(origin=origin)
        except Exception:  # noqa: BLE001
            rd_b = None
        if rd_b is not None and w_b != w:
            ctx.count("val.neq-checked")
            if rd_b == rd or not (rd_b != rd):
                ctx.fail(f"C02/eq/different-records-equal/{sigt}", f"{tname}: {case['tree']} == {dump(tw)}", rep)
    # (e) the same record with its names in the other case: where the library calls them equal (types whose canonical
    #     form folds case), hash / order / membership must agree
    if any(any(l != bytes(l).swapcase() for l in n.labels) for n in names_in(tree)):
        try:
            rd_c = spec.build(cls, c, t, swapcase_names(tree))
        except Exception:  # noqa: BLE001
            rd_c = None
        if rd_c is not None and rd_c == rd:
            ctx.count("val.case-variant-equal")
            relations_oracle(ctx, rep, rd, rd_c, f"C02/eq/relations-incoherent-for-case-variant/{sigt}", f"{tname} {case['tree']} vs names in the other case")
    # (d) relative names are not equal to their absolute completion
    if origin is not None and origin.is_absolute() and any(not n.is_absolute() for n in names_in(tree)):
        try:
            rd_abs = spec.build(cls, c, t, derel(tree, origin))
        except Exception:  # noqa: BLE001
            rd_abs = None
        if rd_abs is not None:
            ctx.count("val.rel-vs-abs")
            if rd_abs == rd or not (rd_abs != rd):
                ctx.fail(f"C02/eq/relative-equals-absolute/{sigt}", f"{tname} {case['tree']}: a record with relative names == its absolute completion", rep)


def relations_oracle(ctx, rep, a, b, sig, what):
    """`a` and `b` are the same record obtained over two routes: every equality-like relation must say so"""
    bad = []
    if not (a == b) or not (b == a):
        bad.append("== not symmetric/true")
    if (a != b) or (b != a):
        bad.append("!= true")
    if not (a <= b) or not (a >= b) or not (b <= a) or not (b >= a):
        bad.append("<=/>= not reflexive")
    if (a < b) or (a > b) or (b < a) or (b > a):
        bad.append("</> true")
    if hash(a) != hash(b):
        bad.append("hash differs")
    if b not in {a} or a not in [b] or len({a, b}) != 1:
        bad.append("set/list membership")
    if bad:
        ctx.fail(sig, f"{what}: {', '.join(bad)}", rep)


def extra_wire_oracle(ctx, case, rep, c, t, rd, w, origin, sigt, tname):
    """options and argument forms of the entry points, and re-use of one parser; everything is compared with the
    record `from_wire` builds from the plain encoding (an absolute name below the origin decodes relativized)"""
    try:
        rd = dns.rdata.from_wire(c, t, w, 0, len(w), origin)
    except Exception:  # noqa: BLE001
        return  # reported by the main oracle
    # to_wire with a compression table: still the same record when read back from offset 0
    try:
        wc = rd.to_wire(None, {}, origin)
        f = io.BytesIO()
        rd.to_wire(f, {}, origin)
        if f.getvalue() != wc:
            ctx.fail(f"C02/to_wire/file-differs-with-compress/{sigt}", f"{tname}: to_wire(file, compress) != to_wire(None, compress)", rep)
        rdc = dns.rdata.from_wire(c, t, wc, 0, len(wc), origin)
        # compression matches suffixes case-insensitively (RFC 1035 §4.1.4 as dnspython implements it: the table is keyed
        # by Name), so a name inside the record that ends in a case variant of an earlier name of the same record
        # comes back with that earlier spelling: the record is equal, its plain re-encoding equal up to ASCII case
        if not (rdc == rd) or rdc.to_wire(origin=origin).lower() != w.lower() or len(wc) > len(w):
            ctx.fail(f"C02/to_wire/compress-table-changes-record/{sigt}", f"{tname} {w.hex()}: written with compress={{}} it reads back as another record", rep)
    except Exception as e:  # noqa: BLE001
        ctx.fail(f"C02/to_wire/compress-table-raises:{type(e).__name__}/{sigt}", f"{tname} {w.hex()}", rep)
    # text mnemonics / enum members instead of numbers, keyword instead of positional arguments
    try:
        ct = dns.rdataclass.to_text(dns.rdataclass.RdataClass.make(c))
        tt = dns.rdatatype.to_text(dns.rdatatype.RdataType.make(t))
        r1 = dns.rdata.from_wire(ct, tt, w, 0, len(w), origin)
        r2 = dns.rdata.from_wire(rdclass=dns.rdataclass.RdataClass.make(c), rdtype=dns.rdatatype.RdataType.make(t),
                                 wire=w, current=0, rdlen=len(w), origin=origin)
        k1 = dns.rdata.get_rdata_class(dns.rdataclass.RdataClass.make(c), dns.rdatatype.RdataType.make(t))
        if type(r1) is not type(rd) or type(r2) is not type(rd) or not (r1 == rd) or not (r2 == rd) or type(rd) is not k1:
            ctx.fail(f"C02/from_wire/argument-form-changes-result/{sigt}", f"{tname} {w.hex()}: text mnemonics / enum members / keywords give another record", rep)
    except Exception as e:  # noqa: BLE001
        ctx.fail(f"C02/from_wire/argument-form-raises:{type(e).__name__}/{sigt}", f"{tname} {w.hex()}: text mnemonics / enum members / keywords", rep)
    # one parser, two records in a row (as a message parser does)
    try:
        buf = b"\x00" + w + w
        parser = dns.wire.Parser(buf, 1)
        out = []
        for _ in range(2):
            with parser.restrict_to(len(w)):
                out.append(dns.rdata.from_wire_parser(c, t, parser, origin))
        if parser.current != len(buf) or not (out[0] == rd) or not (out[1] == rd) or out[1].to_wire(origin=origin) != w:
            ctx.fail(f"C02/from_wire/parser-reuse/{sigt}", f"{tname} {w.hex()}: the second record read with the same parser differs", rep)
    except Exception as e:  # noqa: BLE001
        ctx.fail(f"C02/from_wire/parser-reuse-raises:{type(e).__name__}/{sigt}", f"{tname} {w.hex()}", rep)


def eval_route(ctx: Ctx, case: dict):
    """a constructor call spelled out (argument forms the tree syntax cannot express): if it is accepted, the value
    must survive the wire"""
    c, t = case["cls"], case["typ"]
    rep = {"kind": "route", "case": case}

    def conv(x):
        if "s" in x:
            return x["s"]
        if "b" in x:
            return bytes.fromhex(x["b"])
        if "n" in x:
            return x["n"]
        if "N" in x:
            return dns.name.Name([bytes.fromhex(y) for y in x["N"]])
        raise ValueError(x)

    cls = dns.rdata.get_rdata_class(dns.rdataclass.RdataClass.make(c), dns.rdatatype.RdataType.make(t))
    try:
        rd = cls(c, t, **{k: conv(v) for k, v in case["args"].items()})
    except (dns.exception.DNSException, ValueError, TypeError):
        ctx.count("route.rejected")
        return
    ctx.count("route.accepted")
    w = rd.to_wire()
    try:
        rd2 = dns.rdata.from_wire(c, t, w, 0, len(w))
    except dns.exception.DNSException as e:
        ctx.fail(f"C02/constructor-route/decode-rejects-own-encoding/{c}-{t}" + ("/" + case["trigger"] if case.get("trigger") else ""),
                 f"{cls.__name__}({case['args']}) is accepted and encodes to {w.hex()}, which from_wire rejects ({type(e).__name__}: {e})", rep)
        return
    relations_oracle(ctx, rep, rd, rd2, f"C02/constructor-route/not-equal/{c}-{t}", f"{cls.__name__}({case['args']})")


def gen_routes(ctx: Ctx, rng):
    # CAA tag given as text: validated with str.isalnum (Unicode) or with bytes.isalnum (ASCII)?
    for tag in ["issue", "Issue9", "é", "²", "issue١", "ß", "a-b", "", "a\n", "ｉｓｓｕｅ"]:
        case = {"kind": "route", "cls": 1, "typ": 257, "trigger": "text-tag-alnum-beyond-ascii" if not tag.isascii() else "",
                "args": {"flags": {"n": rng.choice([0, 128])}, "tag": {"s": tag}, "value": {"b": rng.bytes(3).hex()}}}
        ctx.case(("route", 257, tag), sample=case)
        eval_route(ctx, case)


def eval_case(ctx: Ctx, case: dict):
    """evaluate one case; an exception escaping from ==, hash, to_wire or from_wire while the oracle runs is itself a
    failure of the property (these operations are total on records the library produced)"""
    try:
        _eval_case(ctx, case)
    except Exception as e:  # noqa: BLE001
        import traceback

        tb = traceback.extract_tb(e.__traceback__)
        inside = [f for f in tb if "/dns/" in f.filename]
        if not inside:
            raise  # a defect of the harness, not of the implementation
        where = f"{os.path.basename(inside[-1].filename)}:{inside[-1].name}"
        ctx.fail(f"C02/oracle/raises:{type(e).__name__}/{case['cls']}-{case['typ']}",
                 f"{type(e).__name__} from {where} while comparing / hashing / re-encoding a record of {case['cls']}/{case['typ']}",
                 {"kind": case["kind"], "case": case})


def _eval_case(ctx: Ctx, case: dict):
    k = case["kind"]
    if k == "dispatch":
        eval_dispatch(ctx, case)
        return
    if k == "route":
        eval_route(ctx, case)
        return
    c, t = case["cls"], case["typ"]
    rep = {"kind": k, "case": case}
    origin = mkorigin(case.get("origin"))
    key, spec = spec_for(c, t)
    modelled = key is not None or case.get("generic", False)
    tname = f"{c}/{t}"
    sigt = f"{'ANY' if key and key[0] == ANY else c}-{t}" if key else "generic"
    if k == "val":
        tree = parse(case["tree"])
        cls = dns.rdata.get_rdata_class(dns.rdataclass.RdataClass.make(c), dns.rdatatype.RdataType.make(t))
        try:
            rd = spec.build(cls, c, t, tree)
        except (dns.exception.DNSException, ValueError, SyntaxError, AssertionError, TypeError, binascii.Error) as e:
            rd = None
            impl = "invalid"
        if rd is not None:
            try:
                w = rd.to_wire(origin=origin)
                impl = "ok " + hx(w)
            except dns.name.NeedAbsoluteNameOrOrigin:
                w = None
                impl = "needabs"
            except Exception as e:  # noqa: BLE001
                w = None
                impl = "raise " + type(e).__name__
                ctx.fail(f"C02/to_wire/raises/{sigt}", f"to_wire raised {type(e).__name__} on an accepted value of {tname}: {case['tree']}", rep)
        ctx.count("val." + impl.split(" ")[0])
        if not (spec.custom and impl == "invalid"):
            ctx.corr(f"c02.enc {VARIANT} {c} {t} {enc_origin(case.get('origin'))} {case['tree']}", impl, case)
        if rd is None or w is None:
            return
        f = io.BytesIO()
        try:
            rd.to_wire(f, None, origin)
            if f.getvalue() != w:
                ctx.fail(f"C02/to_wire/file-differs/{sigt}", f"{tname}: to_wire(file) != to_wire()", rep)
        except Exception as e:  # noqa: BLE001
            ctx.fail(f"C02/to_wire/raises/{sigt}", f"to_wire(file) raised {type(e).__name__} for {tname}", rep)
        extra_value_oracle(ctx, case, rep, spec, cls, c, t, tree, rd, w, origin, sigt, tname)
        if len(w) % 3 == 0:
            extra_wire_oracle(ctx, case, rep, c, t, rd, w, origin, sigt, tname)
        # ---- direct oracle: encode -> decode -> equal, byte-identical re-encoding
        try:
            rd2 = dns.rdata.from_wire(c, t, w, 0, len(w), origin)
            _, cur, end_ok = impl_decode(c, t, w, 0, len(w), origin)
        except dns.exception.DNSException as e:
            sig = f"C02/wire-roundtrip/decode-rejects-own-encoding/{sigt}"
            if key == (ANY, 29) and _loc_over_limit(tree):
                # narrow trigger class of a recorded defect: 90 (180) degrees plus minutes/seconds passes the constructor
                sig += "/coordinate-beyond-limit-at-max-degrees"
            ctx.fail(sig, f"from_wire(to_wire(v)) raised {type(e).__name__} for {tname} {case['tree']}", rep)
            return
        except Exception as e:  # noqa: BLE001
            ctx.fail(f"C02/from_wire/foreign-exception:{type(e).__name__}/{sigt}", f"decoding own encoding of {tname}: {e!r}", rep)
            return
        if cur != len(w) or not end_ok:
            ctx.fail(f"C02/from_wire/consumed-not-rdlen/{sigt}", f"{tname}: consumed {cur} of {len(w)}", rep)
        try:
            w2 = rd2.to_wire(origin=origin)
        except Exception as e:  # noqa: BLE001
            ctx.fail(f"C02/wire-roundtrip/reencode-raises/{sigt}", f"{tname}: {e!r}", rep)
            return
        if w2 != w:
            ctx.fail(f"C02/wire-roundtrip/reencode-differs/{sigt}", f"{tname} {case['tree']}: {w.hex()} -> {w2.hex()}", rep)
        expect_eq = True
        if origin is not None:
            for n in names_in(tree):
                if n.is_absolute() and n.is_subdomain(origin):
                    expect_eq = False
                if not n.is_absolute() and (key in NO_REL_DECODE or (key == (ANY, 41))):
                    expect_eq = False
        if expect_eq:
            if not (rd2 == rd) or (rd2 != rd):
                ctx.fail(f"C02/wire-roundtrip/not-equal/{sigt}", f"{tname} {case['tree']}: decoded record != original", rep)
            else:
                relations_oracle(ctx, rep, rd, rd2, f"C02/wire-roundtrip/relations-incoherent/{sigt}", f"{tname} {case['tree']} (constructed vs decoded)")
            if modelled and not spec.custom:
                t2 = dump(spec.tree(rd2))
                if t2 != dump(spec.tree(rd)):
                    ctx.fail(f"C02/wire-roundtrip/fields-differ/{sigt}", f"{tname}: {dump(spec.tree(rd))} -> {t2}", rep)
        else:
            ctx.count("val.abs-below-origin")
        # the decoding of the encoding, against the model
        ctx.corr(f"c02.dec {VARIANT} {c} {t} {enc_origin(case.get('origin'))} - {hx(w)}", "ok " + dump(spec.tree(rd2)), case)
    elif k == "wire":
        pfx, rdata, post = bytes.fromhex(case["pfx"]), bytes.fromhex(case["rdata"]), bytes.fromhex(case["post"])
        buf = pfx + rdata + post
        rd = None
        try:
            rd = dns.rdata.from_wire(c, t, buf, len(pfx), len(rdata), origin)
            impl = "ok"
        except dns.exception.FormError:
            impl = "err"
        except dns.exception.DNSException as e:
            impl = "err"
            ctx.fail(f"C02/from_wire/error-not-FormError:{type(e).__name__}/{sigt}",
                     f"from_wire({tname}, {rdata.hex()}) reports {type(e).__name__}, which is not a format error", rep)
        except Exception as e:  # noqa: BLE001
            impl = "FOREIGN " + type(e).__name__
            ctx.fail(f"C02/from_wire/foreign-exception:{type(e).__name__}/{sigt}", f"from_wire({tname}, {rdata.hex()}) raised {e!r}", rep)
        if not post:
            # a declared RDATA length reaching beyond the buffer is a format error, whatever the type
            over = 1 + len(rdata) % 3
            try:
                dns.rdata.from_wire(c, t, buf, len(pfx), len(rdata) + over, origin)
                ctx.fail(f"C02/from_wire/rdlen-beyond-buffer-accepted/{sigt}", f"{tname}: rdlen {len(rdata) + over} with {len(rdata)} octets available was accepted", rep)
            except dns.exception.FormError:
                pass
            except Exception as e:  # noqa: BLE001
                ctx.fail(f"C02/from_wire/rdlen-beyond-buffer:{type(e).__name__}/{sigt}", f"{tname}: rdlen beyond the buffer raised {type(e).__name__}", rep)
        # the same decoding through an explicit parser: position and limit after the call are observable
        cur, end_ok, rdp = None, True, None
        try:
            rdp, cur, end_ok = impl_decode(c, t, buf, len(pfx), len(rdata), origin)
        except Exception as e:  # noqa: BLE001
            rdp = None
            if getattr(e, "c02_end_restored", True) is False:
                ctx.fail(f"C02/from_wire/parser-limit-not-restored-after-error/{sigt}",
                         f"{tname} {rdata.hex()}: after the error the enclosing parser's end is still the RDATA end", rep)
        if (rd is None) != (rdp is None) and not impl.startswith("FOREIGN"):
            ctx.fail(f"C02/from_wire/differs-from-restricted-parser/{sigt}",
                     f"{tname} {rdata.hex()}: from_wire {'accepts' if rd is not None else 'rejects'}, from_wire_parser under restrict_to(rdlen) does not", rep)
        elif rd is not None and rdp is not None and not (rdp == rd):
            ctx.fail(f"C02/from_wire/differs-from-restricted-parser/{sigt}", f"{tname} {rdata.hex()}: different records", rep)
        ctx.count("wire." + impl.split(" ")[0])
        if rd is not None and modelled:
            try:
                impl = "ok " + dump(spec.tree(rd))
            except TypeError as e:
                impl = "ok ?" + str(e)
        if modelled:
            ctx.corr(f"c02.dec {VARIANT} {c} {t} {enc_origin(case.get('origin'))} {hx(pfx)} {hx(rdata)}", impl, case)
        if rd is None:
            return
        # ---- direct oracle on an accepted octet string
        if cur is not None and (cur != len(pfx) + len(rdata) or not end_ok):
            ctx.fail(f"C02/from_wire/consumed-not-rdlen/{sigt}", f"{tname}: parser at {cur}, slice ends at {len(pfx) + len(rdata)}", rep)
        if post:
            # octets after the slice must not matter
            try:
                rdb, _, _ = impl_decode(c, t, pfx + rdata, len(pfx), len(rdata), origin)
                if not (rdb == rd) or rdb.to_wire(origin=origin or dns.name.root) != rd.to_wire(origin=origin or dns.name.root):
                    ctx.fail(f"C02/from_wire/reads-beyond-rdlen/{sigt}", f"{tname}: result depends on octets after the RDATA", rep)
            except Exception as e:  # noqa: BLE001
                ctx.fail(f"C02/from_wire/reads-beyond-rdlen/{sigt}", f"{tname}: {e!r} without the trailing octets", rep)
        try:
            w = rd.to_wire(origin=origin)
        except dns.name.NeedAbsoluteNameOrOrigin:
            # only possible when decoding relativized a name and to_wire got no origin: cannot happen (same origin)
            ctx.fail(f"C02/fixpoint/reencode-raises/{sigt}", f"{tname}: NeedAbsoluteNameOrOrigin re-encoding a decoded record", rep)
            return
        except Exception as e:  # noqa: BLE001
            ctx.fail(f"C02/fixpoint/reencode-raises/{sigt}", f"{tname} {rdata.hex()}: {e!r}", rep)
            return
        try:
            rd3, cur3, _ = impl_decode(c, t, w, 0, len(w), origin)
        except Exception as e:  # noqa: BLE001
            ctx.fail(f"C02/fixpoint/decode-of-reencoding-fails/{sigt}", f"{tname} {rdata.hex()} -> {w.hex()}: {e!r}", rep)
            return
        # narrow trigger class of a recorded defect (KNOWN_FINDINGS.json): an EDE option whose decoded text still ends in NUL
        trig = ""
        if key == (ANY, 41) and any(isinstance(o_, dns.edns.EDEOption) and o_.text is not None and o_.text.endswith("\0")
                                    for o_ in rd.options):
            trig = "/EDE-text-ends-with-NUL"
        if trig:
            if not (rd3 == rd) or rd3.to_wire(origin=origin) != w or hash(rd3) != hash(rd):
                ctx.fail(f"C02/fixpoint{trig}/{sigt}", f"{tname} {rdata.hex()}: decode(encode(decode b)) != decode b "
                         f"(one trailing NUL of the EDE text is dropped by every decoding)", rep)
            return
        if not (rd3 == rd) or (rd3 != rd):
            ctx.fail(f"C02/fixpoint/not-equal/{sigt}", f"{tname} {rdata.hex()}: decode(encode(decode b)) != decode b", rep)
        try:
            w3 = rd3.to_wire(origin=origin)
        except Exception as e:  # noqa: BLE001
            ctx.fail(f"C02/fixpoint/reencode-raises/{sigt}", f"{tname}: {e!r}", rep)
            return
        if w3 != w:
            ctx.fail(f"C02/fixpoint/encoding-not-fixed/{sigt}", f"{tname} {rdata.hex()}: {w.hex()} then {w3.hex()}", rep)
        if hash(rd3) != hash(rd):
            ctx.fail(f"C02/fixpoint/hash-differs/{sigt}", f"{tname} {rdata.hex()}", rep)
    else:
        raise ValueError(k)


def _loc_over_limit(tree):
    try:
        _, _, _, lat, lon, _ = tree
        return (lat[0] == 90 and any(lat[1:4])) or (lon[0] == 180 and any(lon[1:4]))
    except Exception:  # noqa: BLE001
        return False


# ------------------------------------------------------------------------------------------------
# generation
# ------------------------------------------------------------------------------------------------
ORIGINS = [None, None, None, [], [""], ["6578616d706c65", ""], ["4578", "636f4d", ""], ["61" * 63, "62" * 63, "63" * 40, ""]]


def g_origin(rng):
    return rng.choice(ORIGINS)


def classes_for(key, rng):
    if key[0] == ANY:
        return rng.choice([1, 1, 1, 3, 4, 254, 255, 0, 65535]) if key[1] != 41 else rng.choice([512, 1232, 4096, 0, 65535, 1])
    return key[0]


def ptrify(rng, tree, w):
    """replace the tail of one embedded absolute name by a pointer into a fresh prefix holding that tail"""
    cands = [n for n in names_in(tree) if n.is_absolute() and len(n.labels) >= 1]
    if not cands:
        return None
    n = rng.choice(cands)
    nw = n.to_wire()
    at = w.find(nw)
    if at < 0:
        return None
    i = rng.below(len(n.labels))
    tail = dns.name.Name(n.labels[i:]).to_wire()
    junk = rng.bytes(rng.below(4))
    pfx = junk + tail + rng.bytes(rng.below(3))
    head = nw[: len(nw) - len(tail)]
    ptr = bytes([0xC0 | (len(junk) >> 8), len(junk) & 0xFF])
    return pfx, w[:at] + head + ptr + w[at + len(nw):]


def mutate(rng, w):
    w = bytearray(w)
    for _ in range(rng.choice([1, 1, 1, 2, 3])):
        m = rng.below(9)
        if m == 0 and w:
            i = rng.below(len(w))
            w[i] = rng.below(256)
        elif m == 1 and w:
            i = rng.below(len(w))
            w[i] = rng.choice([0, 1, 0x3F, 0x40, 0x7F, 0x80, 0xC0, 0xFF, (w[i] + 1) & 0xFF, (w[i] - 1) & 0xFF, w[i] ^ 0x80])
        elif m == 2:
            i = rng.below(len(w) + 1)
            w[i:i] = rng.bytes(rng.choice([1, 1, 2, 4]))
        elif m == 3 and w:
            i = rng.below(len(w))
            del w[i:i + rng.choice([1, 1, 2, 4])]
        elif m == 4 and w:
            del w[rng.below(len(w)):]
        elif m == 5:
            w += rng.bytes(rng.choice([1, 1, 2, 3, 8]))
        elif m == 6 and len(w) >= 2:
            i = rng.below(len(w) - 1)
            w[i:i + 2] = bytes([0xC0, rng.below(8)])
        elif m == 7 and w:
            del w[:rng.choice([1, 2])]
        elif m == 8 and w:
            i = rng.below(len(w))
            w[i:i] = w[i:i + rng.below(6)]
    return bytes(w)


def gen_type(ctx: Ctx, rng, key, spec, n_val, n_wire, generic_code=None):
    valid_wires = []
    for i in range(n_val):
        c = classes_for(key, rng) if generic_code is None else generic_code[0]
        t = key[1] if generic_code is None else generic_code[1]
        o = g_origin(rng)
        env = {"origin": mkorigin(o)}
        bad = rng.chance(1, 8)
        tree = spec.gen_bad(rng, env) if bad else None
        if tree is None:
            tree = spec.gen(rng, env)
        case = {"kind": "val", "cls": c, "typ": t, "origin": o, "tree": dump(tree)}
        if generic_code is not None:
            case["generic"] = True
        ctx.case(("val", c, t, str(o), case["tree"]), sample=case)
        eval_case(ctx, case)
        if not bad and len(valid_wires) < 64:
            try:
                cls = dns.rdata.get_rdata_class(dns.rdataclass.RdataClass.make(c), dns.rdatatype.RdataType.make(t))
                rd = spec.build(cls, c, t, tree)
                valid_wires.append((tree, rd.to_wire(origin=env["origin"]), o))
            except Exception:  # noqa: BLE001
                pass
    for i in range(n_wire):
        c = classes_for(key, rng) if generic_code is None else generic_code[0]
        t = key[1] if generic_code is None else generic_code[1]
        o = g_origin(rng)
        pfx = rng.bytes(rng.choice([0, 0, 1, 3, 12]))
        post = rng.bytes(rng.choice([0, 0, 1, 2, 5]))
        r = rng.below(10)
        sub = "random"
        raw = None
        if rng.chance(3, 10) and generic_code is None:
            env = {"origin": mkorigin(o)}
            raw = spec.gen_raw(rng, env)
        if raw is not None:
            rdata = raw
            sub = "raw"
        elif r < 6 and valid_wires:
            tree, w, o = rng.choice(valid_wires)
            if r < 2:
                pw = ptrify(rng, tree, w)
                if pw is not None:
                    pfx, rdata = pw
                    sub = "ptr"
                else:
                    rdata = w
                    sub = "valid"
            elif r < 3:
                rdata = w
                sub = "valid"
            else:
                rdata = mutate(rng, w)
                sub = "mutated"
        else:
            n = rng.choice([0, 1, 2, 3, 4, 5, 6, 8, 10, 16, 17, 20, 24, 32, 40, 64, 255, 256])
            if rng.chance(1, 2):
                n = rng.below(48)
            rdata = rng.bytes(n) if rng.chance(2, 3) else rng.bytes(n, [0, 0, 1, 2, 3, 4, 8, 0x10, 0x20, 0x41, 0xC0, 0xFF])
        case = {"kind": "wire", "cls": c, "typ": t, "origin": o, "pfx": pfx.hex(), "rdata": rdata.hex(), "post": post.hex()}
        if generic_code is not None:
            case["generic"] = True
        ctx.count("wire.gen." + sub)
        ctx.case(("wire", c, t, str(o), pfx, rdata), sample=case if len(rdata) < 80 else None)
        eval_case(ctx, case)


def generate(ctx: Ctx, scale, rng):
    impl = implemented()
    status = {}
    for key in impl:
        if key in SPECS:
            spec = SPECS[key]
            status[f"{key[0]}/{key[1]}"] = CUSTOM_STATUS.get(key, "proved")
            gen_type(ctx, rng, key, spec, int(300 * scale), int(700 * scale))
        else:
            # present in the code, no adapter/schema: direct oracle only, on arbitrary and generic-shaped input
            status[f"{key[0]}/{key[1]}"] = "oracle-only"
            ctx.count("types.oracle-only")
            gen_type(ctx, rng, key, GENERIC, 0, int(700 * scale))
    for key in SPECS:
        if key not in impl:
            ctx.count("types.spec-without-implementation")
    # unknown type codes and class/type pairs without a module: RFC 3597 generic form
    impl_types = set(t for _, t in impl)
    for _ in range(int(12 * scale) + 1):
        t = rng.choice([0, 3, 4, 7, 8, 9, 10, 14, 30, 31, 34, 38, 40, 54, 57, 58, 100, 103, 251, 252, 253, 254, 255, 259, 1000, 32768, 65280, 65534, 65535, rng.below(65536)])
        if t in impl_types:
            continue
        c = rng.choice([1, 3, 4, 254, 255, 2, 65535])
        gen_type(ctx, rng, (ANY, t), GENERIC, int(8 * scale) + 1, int(16 * scale) + 1, generic_code=(c, t))
    # class-specific modules asked for in another class fall back to the generic form
    for key in [k for k in impl if k[0] != ANY]:
        other = 3 if key[0] == 1 else 1
        if (other, key[1]) in impl or (ANY, key[1]) in impl:
            continue
        gen_type(ctx, rng, (ANY, key[1]), GENERIC, int(3 * scale) + 1, int(6 * scale) + 1, generic_code=(rng.choice([other, 4, 254]), key[1]))
    gen_dispatch(ctx, rng)
    gen_history(ctx, rng)
    gen_routes(ctx, rng)
    ctx.extra["per_type_status"] = status
    ctx.extra["types_implemented"] = len(impl)
    ctx.extra["types_modelled"] = len([k for k in impl if k in SPECS])


def run(ctx: Ctx):
    ctx.extra["variant_ede_strip_all_nul"] = probe_variant()
    for p in sorted(glob.glob(os.path.join(VERIF, "corpus", "C02", "*.json"))):
        c = json.load(open(p))
        ctx.case(("corpus", p), sample=None)
        eval_case(ctx, c)
        ctx.count("corpus")
    generate(ctx, 1 if ctx.tier == "quick" else 12, ctx.rng)


def search(ctx: Ctx):
    probe_variant()
    for m in ctx.mismatches[:50]:
        if m.case is not None:
            eval_case(ctx, m.case)
    generate(ctx, 2 if ctx.tier == "quick" else 20, ctx.rng.fork(7))


def replay(ctx: Ctx, obj: dict):
    probe_variant()
    eval_case(ctx, obj["case"])
    return [f.what for f in ctx.failures]


def impl_of_op(op: str):
    """re-run one recorded protocol line against the implementation (for --replay of a correspondence break)"""
    probe_variant()
    toks = op.split()
    del toks[1]  # the variant token
    if toks[0] == "c02.dec":
        c, t, o, p, r = int(toks[1]), int(toks[2]), toks[3], toks[4], toks[5]
        case = {"kind": "wire", "cls": c, "typ": t, "origin": None if o == "none" else [("" if x == "-" else x) for x in o.split(",")],
                "pfx": "" if p == "-" else p, "rdata": "" if r == "-" else r, "post": ""}
    else:
        c, t, o = int(toks[1]), int(toks[2]), toks[3]
        case = {"kind": "val", "cls": c, "typ": t, "origin": None if o == "none" else [("" if x == "-" else x) for x in o.split(",")],
                "tree": " ".join(toks[4:])}
    ctx = Ctx("C02", "quick", 1)
    ctx.driver_ok = False
    eval_case(ctx, case)
    for q in ctx.queue:
        if q[0].split()[0] == op.split()[0] and q[0].split()[2:] == op.split()[2:]:
            return q[1]
    return "?"


LEVEL = {
    "text": "Lean 4 theorems over a schema language for RDATA codecs (executable model of dns/wirebase.Parser and of every dns/rdtypes/** to_wire/from_wire_parser pair incl. the constructors' validation): generic enc_dec and dec_fixpoint proved by induction on schemas, well-formedness of every table entry by decide, coverage of the implemented (class,type) list regenerated from the code. Tied to the code by a two-direction correspondence check on every implemented type plus a direct round-trip / fixed-point / exact-consumption oracle on all types and unknown type codes.",
    "note": "Trusted: Lean kernel + propext/Classical.choice/Quot.sound; statements in lean/Props/C02.lean; the correspondence harness and its generators; harness/extract_C02.py. All 69 implemented types are proved: 64 plain schemas by the generic theorems (type_codec, with named instances and a concrete valid value for each irregular codec), LOC, OPT, APL, SVCB, HTTPS through their object-level views (loc_/opt_/apl_/svcb_fixpoint), and all_types_fixpoint / every_pair_fixpoint state the fixed-point clause for every table entry and every (class, type) pair. Dispatch (get_rdata_class for every class, also after load_all_types and register_type, probed in fresh interpreters) is tied to the table lookup (dispatch_any_class, dispatch_own_class); the module state behind it (`_rdata_classes`, `_dynamic_load_allowed`) is modelled as a state machine and dispatch_history_independent proves that after any history of get_rdata_class / load_all_types calls the class returned is the stateless rule's (tie: random call histories in fresh interpreters); register_type is probed, not modelled. Recorded: a class-ANY lookup of a class-specific type poisons the class-independent cache slot (known finding). Repaired in the tree: LOC 90/180 degrees plus minutes, EDE trailing NULs (as-shipped variant retained in the model and refuted). Per-type status is in the evidence (per_type_status).",
    "technique": "Lean 4 proof (induction over a deep-embedded schema language, finite table by decide) + model-vs-implementation correspondence",
    "design_ref": "DESIGN.md §7 C02",
}

"""C08 — a rendered message never exceeds its effective size limit; truncation keeps a parseable prefix of whole
record sets with TC set exactly when the cut fell before ADDITIONAL, OPT and TSIG kept; rollback leaves no pointer
into removed bytes; with padding the final length (TSIG included) is a multiple of the block size.

Correspondence: Message.to_wire at *every* limit from below 512 to len+2 for each generated message, at every pad
block of the pool, and step-by-step Renderer traces (working tree) vs lean/Model/Render.lean through the driver.
Oracle: the property clauses evaluated directly on the implementation for every distinct rendering.
"""
from harness.core import Stalled as _Stalled
import glob
import json
import os
import struct
import types
import zlib

import dns.exception
import dns.flags
import dns.message
import dns.name
import dns.edns
import dns.renderer
import dns.rrset
import dns.tsig

from harness.core import VERIF, Ctx, enc_labels, hx
from harness.props import C03
from harness.props.C03 import (L, absolute, case_of_message, check_walk, expected_records, gen_message, gen_rrset, hexl, lower,
                               mk_message, mk_rrset, msg_tokens, apply_boom, without_boom, normalise, parse, pin_time, render, same_message, same_rrset, tsig_case,
                               walk_message, WalkError, wellformed, NameGen, gen_tsig, gen_options)

RULE = (
    "cases are generated from one SplitMix64 state: well-formed messages of 500–1500 octets (all sections, shared and "
    "case-differing owner suffixes, names inside RDATA, EDNS options, TSIG with compressible and non-compressible key names), "
    "each rendered at EVERY size limit from 505 to len+2 with and without prefer_truncation, at every pad block size in "
    "{1..64,128,468} (with and without TSIG, at a generous and at a tight limit), at explicit max_size values far from the message "
    "size — {0, 65534, 65535, 65536, 70000, 100000, 2**31} on messages of 65000..72000 octets (a few hundred opaque records, OPT/TSIG or not) "
    "and {0, 1, 12, 511, 512, 513, 65535, 65536} with request_payload in {0, 100, 512, 530, 1232, 70000} on messages around 512 octets, both "
    "modes, with and without prepend_length —, through the Renderer object route (3000 scripts per quick run: [reserve] add_question/"
    "add_rrset [release_reserved] add_opt(opt, pad, opt_size, tsig_size) write_header add_tsig/add_multi_tsig, key names that share a "
    "suffix with or equal a rendered name, exact and inexact caller-supplied sizes, fillers tuned so that the unpadded size is already "
    "block-aligned in about half of the padded scripts, tight and generous max_size; a reserve() that fails first, release_reserved() "
    "twice, reserve(negative), an add that goes back to an earlier section, a relative name inside RDATA without origin, non-DNS exceptions "
    "injected in the middle of an item — struct.error from a TTL that does not fit, ValueError/TypeError/OverflowError/BaseException from a stub "
    "RDATA at any record of the set, ValueError from the owner — with a later rrset sharing the owner), limit sweeps "
    "with padding on, an RDATA longer than 65535 octets, received signed messages (from_wire with a keyring) that are optionally modified, "
    "padded with use_edns(pad=…) and rendered again with the TSIG re-emitted or signed anew, and through step-by-step Renderer traces "
    "that keep adding after a TooBig; a case is non-trivial if its key (kind + content) is new"
)
TRUSTED_BASE = C03.TRUSTED_BASE
ASSUMPTIONS = [
    "the TSIG MAC is abstract and of the algorithm's fixed size (the model renders zero octets in its place; the comparison masks the MAC field)",
    "with prefer_truncation a TooBig is allowed by the statement only when the header plus the OPT and TSIG records alone do not fit, or when the EDNS padding does not fit; a result over the limit never is; any other exception (ValueError from reserve()) is a violation",
    "want_shuffle=False; GSS-TSIG (variable MAC) is outside the model",
]

PADS = list(range(1, 65)) + [128, 468]


def eff_limit(ms, request_payload=0):
    if ms == 0:
        ms = request_payload if request_payload else 65535
    return 512 if ms < 512 else 65535 if ms > 65535 else ms


def mac_span(c, w):
    """(start, end) of the MAC field of the trailing TSIG record, or None"""
    if c["tsig"] is None or w is None:
        return None
    other = len(bytes.fromhex(c["tsig"]["other"]))
    maclen = MAC_SIZES[bytes(L(c["tsig"]["alg"])[0]).lower()]
    end = len(w) - 6 - other
    return (end - maclen, end)


MAC_SIZES = {b"hmac-sha256": 32, b"hmac-sha1": 20, b"hmac-sha512": 64, b"hmac-sha224": 28, b"hmac-sha384": 48, b"hmac-md5": 16}


def digest(c, line, w):
    """outcome token comparable with the model's: `len.adler32` with the MAC field zeroed, or `E<err>`"""
    if w is None:
        return "E" + line.split(" ")[1]
    sp = mac_span(c, w)
    if sp is not None and 0 <= sp[0] <= sp[1] <= len(w):
        w = w[:sp[0]] + b"\0" * (sp[1] - sp[0]) + w[sp[1]:]
    return f"{len(w)}.{zlib.adler32(w)}"


def model_tokens(c, pad=None):
    """protocol tokens with a zero MAC of the right size"""
    if c["tsig"] is not None:
        t = dict(c["tsig"])
        t["mac"] = "00" * MAC_SIZES[bytes(L(t["alg"])[0]).lower()]
        t["time"] = C03.FIXED_TIME
        c = dict(c, tsig=t)
    return msg_tokens(c, pad=pad)


def rle(pairs):
    out = []
    lo = hi = None
    cur = None
    for k, v in pairs:
        if cur is None:
            lo = hi = k
            cur = v
        elif v == cur:
            hi = k
        else:
            out.append(f"{lo}-{hi}={cur}")
            lo = hi = k
            cur = v
    if cur is not None:
        out.append(f"{lo}-{hi}={cur}")
    return out


def fixed_tail_size(c):
    """octets of the OPT record (without padding) plus the uncompressed TSIG record, computed from the case alone"""
    n = 0
    if c["opt"] is not None:
        n += 11 + sum(4 + len(bytes.fromhex(b)) for _, b in c["opt"]["options"]) + (4 if c["pad"] else 0)
    if c["tsig"] is not None:
        t = c["tsig"]
        wl = lambda labels: sum(len(l) + 1 for l in L(labels))
        n += wl(t["name"]) + 10 + wl(t["alg"]) + 16 + MAC_SIZES[bytes(L(t["alg"])[0]).lower()] + len(bytes.fromhex(t["other"]))
    return n


def items_of(c):
    return [(s, i) for s in range(4) for i in range(len(c["sections"][s]))]


def prefix_case(c, k, tc):
    """the message holding the first k record sets (section order) of `c`, TC added when `tc`"""
    it = items_of(c)[:k]
    p = json.loads(json.dumps(c))
    p["sections"] = [[c["sections"][s][i] for (s2, i) in it if s2 == s] for s in range(4)]
    if tc:
        p["flags"] = c["flags"] | 0x0200
    return p


def fail(ctx, sig, what, c):
    ctx.fail(sig, what, {"kind": c["kind"], "case": c})


def tsig_owner_compressed(w):
    try:
        wm = walk_message(w)
    except WalkError:
        return False
    ts = [r for r in wm["recs"] if r["sec"] == 3 and r["rdtype"] == 250]
    if not ts:
        return False
    r = ts[-1]
    name_end = r["end"] - r["rdlen"] - 10
    return any(r["pos"] <= p < name_end for p, _ in wm["ptrs"])


def check_rendering(ctx, c, w, limit, pt, full_w, key, origin, pad):
    """the clauses of the property for one successful rendering `w` of case `c` at `limit`"""
    tag = "truncate" if pt else "strict"
    lim = eff_limit(limit, c.get("request_payload", 0))
    if len(w) > lim:
        fail(ctx, f"C08/to_wire/{tag}/exceeds-limit", f"{len(w)} octets rendered under an effective limit of {lim} (max_size={limit})", c)
    if pad:
        if len(w) % pad != 0:
            trig = "tsig-owner-compressed" if (c["tsig"] is not None and tsig_owner_compressed(w)) else "other"
            fail(ctx, f"C08/to_wire/padding-multiple/{trig}", f"pad={pad}: final length {len(w)} = {len(w) % pad} mod {pad}", dict(c, pad=pad, max_size=limit, prefer_truncation=pt))
    if not pt:
        if pad == c["pad"] and full_w is not None and w != full_w:
            fail(ctx, "C08/to_wire/strict/not-the-full-message", "without prefer_truncation a successful rendering differs from the unlimited one", c)
        return
    # parseable
    pl, m2 = parse(w, origin=origin, key=key)
    if m2 is None:
        fail(ctx, "C08/to_wire/truncate/unparseable", f"truncated rendering at limit {limit} does not parse: {pl}", dict(c, max_size=limit, prefer_truncation=True))
        return
    k = sum(len(s) for s in m2.sections)
    its = items_of(c)
    if k > len(its):
        fail(ctx, "C08/to_wire/truncate/not-a-prefix", f"{k} record sets out of {len(its)}", dict(c, max_size=limit))
        return
    cut_before_additional = k < len(its) and its[k][0] < 3
    want_tc = bool(c["flags"] & 0x0200) or cut_before_additional
    if bool(int(m2.flags) & 0x0200) != want_tc:
        fail(ctx, "C08/to_wire/truncate/TC", f"limit {limit}: {k}/{len(its)} record sets kept, first dropped in section "
             f"{its[k][0] if k < len(its) else '-'}, TC={bool(int(m2.flags) & 0x0200)}", dict(c, max_size=limit, prefer_truncation=True))
    p = prefix_case(c, k, cut_before_additional)
    p["pad"] = pad
    mp, _ = mk_message(p)
    l3, w3 = render(mp, limit)  # (also signs mp's TSIG, so that it is comparable with the parsed one)
    d = same_message(mp, m2, origin, ignore_padding_option=bool(pad))
    if d:
        fail(ctx, "C08/to_wire/truncate/not-a-prefix", f"limit {limit}: parsed result is not the first {k} record sets: {d}", dict(c, max_size=limit, prefer_truncation=True))
    if (c["opt"] is not None) != (m2.opt is not None):
        fail(ctx, "C08/to_wire/truncate/lost-OPT", f"limit {limit}", dict(c, max_size=limit, prefer_truncation=True))
    if (c["tsig"] is not None) != (m2.tsig is not None):
        fail(ctx, "C08/to_wire/truncate/lost-TSIG", f"limit {limit}", dict(c, max_size=limit, prefer_truncation=True))
    # whole record sets, counts consistent, no pointer into removed bytes: independent walker on the prefix
    for clause, text in check_walk(p, w):
        fail(ctx, f"C08/to_wire/truncate/{clause}", f"limit {limit}: {text}", dict(c, max_size=limit, prefer_truncation=True))
    # the truncated rendering is exactly the (untruncated) rendering of the prefix message
    if w3 != w:
        fail(ctx, "C08/to_wire/truncate/not-rendering-of-prefix", f"limit {limit}: rendering the kept {k} record sets on their own gives {l3[:60]}", dict(c, max_size=limit, prefer_truncation=True))


def eval_sweep(ctx: Ctx, c: dict):
    pin_time()
    m, key = mk_message(c)
    origin = m.origin
    fl, full_w = render(m, 65535)
    if full_w is None:
        ctx.count("sweep.unrenderable")
        return
    lo, hi = c.get("lo", 505), len(full_w) + 2
    toks = model_tokens(c)
    for pt in (True, False):
        outs = []
        prev = None
        for lim in range(lo, hi + 1):
            try:
                w = m.to_wire(max_size=lim, prefer_truncation=pt, want_shuffle=False)
                line = "ok"
            except dns.exception.TooBig:
                w, line = None, "err TooBig"
            except ValueError:
                w, line = None, "err ValueError"
            outs.append((lim, digest(c, line, w)))
            if w is None:
                ctx.count("sweep.TooBig" if "TooBig" in line else "sweep.ValueError")
                if line == "err ValueError":
                    fail(ctx, "C08/to_wire/raises/ValueError/reserve-exceeds-limit", f"to_wire(max_size={lim}) raised ValueError", dict(c, max_size=lim, prefer_truncation=pt))
                elif pt and c["pad"] == 0 and 12 + fixed_tail_size(c) <= eff_limit(lim, c.get("request_payload", 0)):
                    fail(ctx, "C08/to_wire/truncate/TooBig-without-padding", f"prefer_truncation at limit {lim} raised TooBig although no padding was requested", dict(c, max_size=lim, prefer_truncation=True))
                prev = None
                continue
            if len(w) > eff_limit(lim):
                fail(ctx, f"C08/to_wire/{'truncate' if pt else 'strict'}/exceeds-limit", f"{len(w)} octets under limit {lim}", dict(c, max_size=lim, prefer_truncation=pt))
            if w != prev:
                check_rendering(ctx, c, w, lim, pt, full_w, key, origin, c["pad"])
                ctx.count("sweep.distinct-renderings")
                if pt and len(w) < len(full_w):
                    ctx.count("sweep.truncated")
            prev = w
        ctx.corr(f"c08.sweep {lo} {hi} {int(pt)} {toks}", "ok " + " ".join(rle(outs)), c)
        ctx.count("sweep.limits", hi - lo + 1)


def eval_pads(ctx: Ctx, c: dict):
    pin_time()
    ms, pt = c["max_size"], c["prefer_truncation"]
    outs = []
    m, key = mk_message(c)
    origin = m.origin
    for pad in c["pads"]:
        m.pad = pad
        line, w = render(m, ms, pt)
        outs.append(f"{pad}={digest(c, line, w)}")
        if w is None:
            ctx.count("pads." + line.split(" ")[1])
            if line == "err ValueError":
                fail(ctx, "C08/to_wire/raises/ValueError/reserve-exceeds-limit", f"to_wire(max_size={ms}) raised ValueError", dict(c, pad=pad))
            continue
        ctx.count("pads.ok")
        check_rendering(ctx, c, w, ms, pt, None, key, origin, pad)
    ctx.corr(f"c08.pads {ms} {int(pt)} {','.join(str(p) for p in c['pads'])} {model_tokens(c)}", "ok " + " ".join(outs), c)


def eval_one(ctx: Ctx, c: dict):
    """a single rendering (corpus witnesses)"""
    pin_time()
    m, key = mk_message(c)
    ms, pt = c["max_size"], c["prefer_truncation"]
    line, w = render(m, ms, pt)
    if c["tsig"] is not None and m.tsig is not None:
        made = tsig_case(m.tsig)
        c2 = dict(c, tsig=dict(c["tsig"], mac=made["mac"], time=made["time"]))
    else:
        c2 = c
    ctx.corr(f"c03.render {ms} {int(pt)} {msg_tokens(c2)}", line, c)
    longest = max([len(bytes.fromhex(rd["b"])) for s_ in c["sections"] for r_ in s_ for rd in r_["rdatas"] if rd["k"] == "o"] + [0])
    if longest > 65535 and w is not None:
        fail(ctx, "C08/to_wire/rdlength-overflow", f"an RDATA of {longest} octets was rendered ({len(w)} octets) instead of raising: RDLENGTH is 16 bits", c)
    if w is None:
        if line == "err ValueError":
            fail(ctx, "C08/to_wire/raises/ValueError/reserve-exceeds-limit", f"to_wire(max_size={ms}, prefer_truncation={pt}) raised ValueError (OPT/TSIG reserve larger than the limit) instead of TooBig", c)
        return
    _, full_w = render(m, 65535)
    check_rendering(ctx, c, w, ms, pt, full_w, key, m.origin, c["pad"])


def opt_size_of(c, pad):
    """what Message._compute_opt_reserve computes: the OPT record with, if padding is wanted, an empty PADDING option"""
    if c["opt"] is None:
        return 0
    return 11 + sum(4 + len(bytes.fromhex(b)) for _, b in c["opt"]["options"]) + (4 if pad else 0)


def tsig_size_of(c):
    """the TSIG record with an uncompressed owner name and a MAC of the algorithm's size"""
    if c["tsig"] is None:
        return 0
    t = c["tsig"]
    wl = lambda labels: sum(len(l) + 1 for l in L(labels))
    return wl(t["name"]) + 10 + wl(t["alg"]) + 16 + MAC_SIZES[bytes(L(t["alg"])[0]).lower()] + len(bytes.fromhex(t["other"]))


def eval_robj(ctx: Ctx, c: dict):
    """the Renderer *object* route, as a caller that does not go through Message.to_wire uses it:
    [reserve] add_question/add_rrset… [release_reserved] add_opt(opt, pad, opt_size, tsig_size) write_header
    add_tsig / add_multi_tsig [write_header]"""
    pin_time()
    dns.renderer.time = types.SimpleNamespace(time=lambda: float(C03.FIXED_TIME))
    m, key = mk_message(c)
    ms, pad, osz, tsz, hm, multi, res = c["max_size"], c["pad"], c["opt_size"], c["tsig_size"], c["hdr"], c["multi"], c["reserve"]
    xf = c.get("xf", 0)
    # rrsets marked "boom" raise a non-DNS exception in the middle of the item; the model is given the message without them
    # (its `.err` outcome — nothing written, nothing registered, nothing counted — stands for any exception)
    line_in = f"c08.robj {ms} {int(res)} {pad} {osz} {tsz} {hm} {xf} {model_tokens(without_boom(c), pad=0)}"
    r = dns.renderer.Renderer(m.id, int(m.flags), ms, m.origin)
    tr = []
    if xf & 1:
        before = (r.max_size, r.reserved)
        try:
            r.reserve(ms + 1 + osz)
            tr.append("res:ok")
        except ValueError:
            tr.append("res:err:ValueError")
            if (r.max_size, r.reserved) != before:
                fail(ctx, "C08/renderer/reserve/state-after-error", f"a reserve() that raised ValueError changed (max_size, reserved) from {before} to {(r.max_size, r.reserved)}", c)
    if xf & 8:
        before = (r.max_size, r.reserved)
        try:
            r.reserve(-1 - (xf >> 4))
            fail(ctx, "C08/renderer/reserve/negative-accepted", f"reserve({-1 - (xf >> 4)}) did not raise ValueError", c)
        except ValueError:
            pass
        if (r.max_size, r.reserved) != before:
            fail(ctx, "C08/renderer/reserve/state-after-error", f"reserve(negative) changed (max_size, reserved) from {before} to {(r.max_size, r.reserved)}", c)
            r.max_size, r.reserved = before
    if res:
        try:
            r.reserve(osz)
            r.reserve(tsz)
        except ValueError:
            ctx.corr(line_in, "err ValueError", c)
            ctx.count("robj.reserve-ValueError")
            return
    kept = [[], [], [], []]
    stop = False
    for sec in range(4):
        for i, rr in enumerate(m.sections[sec]):
            if stop:
                break
            snap_add = (r.output.getvalue(), dict(r.compress), list(r.counts))
            spec = c["sections"][sec][i].get("boom")
            if spec is not None:
                rrb, want = apply_boom(rr, spec)
                got = None
                try:
                    if spec.get("route") == "rdataset":
                        r.add_rdataset(sec, rrb.name, rrb.to_rdataset(), want_shuffle=False)
                    else:
                        r.add_rrset(sec, rrb, want_shuffle=False)
                except BaseException as e:  # noqa: BLE001 — the injected failure, whatever its class
                    if isinstance(e, _Stalled):
                        raise
                    got = type(e)
                ctx.count("robj.boom." + spec["how"])
                if got is not want:
                    fail(ctx, "C08/renderer/boom-not-raised", f"injected {want.__name__} ({spec}) surfaced as {None if got is None else got.__name__}", c)
                now = (r.output.getvalue(), dict(r.compress), list(r.counts))
                if now != snap_add or r.output.tell() != len(snap_add[0]):
                    fail(ctx, "C08/renderer/partial-record-after-exception",
                         f"add_rrset raised {want.__name__} in the middle of the item ({spec['how']}, record {spec.get('at', 0)}) and left "
                         f"{len(now[0]) - len(snap_add[0])} octets, {len(now[1]) - len(snap_add[1])} compression entries, counts {now[2]} (before {snap_add[2]}) behind", c)
                    return
                continue
            try:
                if sec == 0:
                    r.add_question(rr.name, rr.rdtype, rr.rdclass)
                else:
                    r.add_rrset(sec, rr, want_shuffle=False)
                tr.append(f"ok:{r.output.tell()}:{len(r.compress)}")
                kept[sec].append(c["sections"][sec][i])
            except dns.exception.TooBig:
                tr.append(f"big:{r.output.tell()}:{len(r.compress)}")
            except dns.name.NeedAbsoluteNameOrOrigin:
                # an exception other than TooBig: the add must leave no trace either (whole record sets only, consistent counts)
                tr.append("err:NeedAbsoluteNameOrOrigin")
                ctx.count("robj.need-absolute")
                now = (r.output.getvalue(), dict(r.compress), list(r.counts))
                if now != snap_add:
                    fail(ctx, "C08/renderer/partial-record-after-exception",
                         f"add_rrset raised NeedAbsoluteNameOrOrigin (relative name inside RDATA, no origin) and left {len(now[0]) - len(snap_add[0])} octets of the "
                         f"record and {len(now[1]) - len(snap_add[1])} compression entries behind: a caller that carries on renders a malformed message", c)
                    return
                stop = True
        if stop:
            break
    if xf & 4 and m.sections[1] and r.section > 1:
        snap = (r.output.getvalue(), dict(r.compress), list(r.counts), r.section)
        try:
            r.add_rrset(1, m.sections[1][0], want_shuffle=False)
            tr.append(f"ooo:ok:{r.output.tell()}")
            if snap[3] > 1:
                fail(ctx, "C08/renderer/section-order", f"add_rrset(ANSWER) after section {snap[3]} did not raise FormError", c)
            else:
                kept[1].append(c["sections"][1][0])
        except dns.exception.TooBig:
            tr.append(f"ooo:big:{r.output.tell()}")
        except dns.exception.FormError:
            tr.append("ooo:err:FormError")
            if (r.output.getvalue(), dict(r.compress), list(r.counts), r.section) != snap:
                fail(ctx, "C08/renderer/section-order/state-after-error", "an out-of-order add changed buffer, table, counts or section", c)
    if res:
        r.release_reserved()
    if xf & 2:
        before = r.max_size
        r.release_reserved()
        if r.max_size != before or r.reserved != 0:
            fail(ctx, "C08/renderer/release-twice", f"a second release_reserved() moved max_size from {before} to {r.max_size} (reserved={r.reserved})", c)
    opt_ok = tsig_ok = False
    if m.opt is not None:
        try:
            if c.get("kw"):
                r.add_opt(tsig_size=tsz, opt_size=osz, pad=pad, opt=m.opt)       # the same call spelled with keywords
            else:
                r.add_opt(m.opt, pad, osz, tsz)
            tr.append(f"opt:ok:{r.output.tell()}")
            opt_ok = True
        except dns.exception.TooBig:
            tr.append(f"opt:big:{r.output.tell()}")
        except dns.exception.FormError:
            tr.append("opt:err:FormError")          # the padding fits its option, the OPT RDATA as a whole does not fit RDLENGTH
        except Exception as e:  # noqa: BLE001
            fail(ctx, f"C08/renderer/add_opt/raises/{type(e).__name__}", f"add_opt(pad={pad}, opt_size={osz}, tsig_size={tsz}) raised {type(e).__name__}: {e}", c)
            return
    if hm != 1:
        r.write_header()
    if c["tsig"] is not None:
        t = c["tsig"]
        kn, alg = dns.name.Name(L(t["name"])), dns.name.Name(L(t["alg"]))
        try:
            secret = key.secret if c.get("kw") else key          # a Key object or the bare secret octets + algorithm
            if multi:
                r.add_multi_tsig(None, kn, secret, t["fudge"], t["orig_id"], t["error"], bytes.fromhex(t["other"]), b"", alg)
            elif c.get("kw"):
                r.add_tsig(algorithm=alg, request_mac=b"", other_data=bytes.fromhex(t["other"]), tsig_error=t["error"], id=t["orig_id"],
                           fudge=t["fudge"], secret=secret, keyname=kn)
            else:
                r.add_tsig(kn, secret, t["fudge"], t["orig_id"], t["error"], bytes.fromhex(t["other"]), b"", alg)
            tr.append(f"tsig:ok:{r.output.tell()}")
            tsig_ok = True
        except dns.exception.TooBig:
            tr.append(f"tsig:big:{r.output.tell()}")
    if hm != 0:
        r.write_header()
    w = r.get_wire()
    if r.get_wire() != w:
        fail(ctx, "C08/renderer/get_wire-not-stable", "get_wire() called twice gives different octets", c)
    no_boom = not any("boom" in x for s_ in c["sections"] for x in s_)
    if (no_boom and ms == 65535 and not multi and xf == 0 and all(x.startswith(("ok", "opt:ok", "tsig:ok")) for x in tr)
            and osz == opt_size_of(c, pad) and tsz == tsig_size_of(c) and (pad == 0 or m.opt is not None)
            and (c["tsig"] is None or (pad != 0 and m.opt is not None))):   # without padding the object route compresses the TSIG owner, to_wire never does
        # the second call site: Message.to_wire drives the same Renderer calls and must produce the same octets
        m.pad = pad
        if c["tsig"] is not None:
            t = c["tsig"]
            m.use_tsig(key, fudge=t["fudge"], original_id=t["orig_id"], tsig_error=t["error"], other_data=bytes.fromhex(t["other"]))
        try:
            wt = m.to_wire(max_size=65535, want_shuffle=False)
        except Exception as e:  # noqa: BLE001
            wt = type(e).__name__
        ctx.count("robj.vs-to_wire")
        if wt != w:
            fail(ctx, "C08/renderer/differs-from-to_wire", f"the Renderer calls give {len(w)} octets, Message.to_wire of the same message "
                 f"{wt if isinstance(wt, str) else str(len(wt)) + ' octets'}", c)
    wm = w
    if tsig_ok:
        sp = mac_span(c, w)
        wm = w[:sp[0]] + b"\0" * (sp[1] - sp[0]) + w[sp[1]:]
    tbl = ";".join(f"{enc_labels(k.labels)}@{v}" for k, v in r.compress.items())
    ctx.corr(line_in, f"ok {' '.join(tr)} out={hx(wm)} tbl={tbl}", c)
    ctx.count("robj")
    ctx.count("robj.opt." + ("none" if m.opt is None else "ok" if opt_ok else "TooBig"))
    ctx.count("robj.tsig." + ("none" if c["tsig"] is None else "ok" if tsig_ok else "TooBig"))
    # ---- direct oracle
    if len(w) > ms:
        fail(ctx, "C08/renderer/exceeds-limit", f"{len(w)} octets from a Renderer with max_size {ms}", c)
    exact = osz == opt_size_of(c, pad) and tsz == tsig_size_of(c)
    complete = (m.opt is None or opt_ok) and (c["tsig"] is None or tsig_ok)
    if pad and opt_ok and complete and exact:
        ctx.count("robj.padded")
        try:
            wk = walk_message(w)
            optrec = [x for x in wk["recs"] if x["sec"] == 3 and x["rdtype"] == 41][-1]
            if optrec["rdlen"] >= 4 and w[optrec["end"] - 4:optrec["end"]] == b"\x00\x0c\x00\x00":
                ctx.count("robj.padded.remainder-0")
        except (WalkError, IndexError):
            pass
        if len(w) % pad != 0:
            trig = "tsig-owner-compressed" if (c["tsig"] is not None and tsig_owner_compressed(w)) else "other"
            fail(ctx, f"C08/renderer/padding-multiple/{trig}",
                 f"Renderer.add_opt(pad={pad}, opt_size={osz}, tsig_size={tsz}) + add_{'multi_' if multi else ''}tsig: final length {len(w)} = {len(w) % pad} mod {pad}", c)
    kr = None if key is None else {key.name: key}
    try:
        m2 = dns.message.from_wire(w, keyring=kr, origin=m.origin, multi=bool(multi and tsig_ok))
    except Exception as e:  # noqa: BLE001
        fail(ctx, f"C08/renderer/unparseable/{type(e).__name__}", f"from_wire (keyring given) of the Renderer's output raised {type(e).__name__}: {e}", c)
        return
    if tsig_ok != bool(m2.had_tsig):
        fail(ctx, "C08/renderer/lost-TSIG", f"add_tsig succeeded: {tsig_ok}, parsed had_tsig: {m2.had_tsig}", c)
    if opt_ok != (m2.opt is not None):
        fail(ctx, "C08/renderer/lost-OPT", f"add_opt succeeded: {opt_ok}, parsed opt: {m2.opt is not None}", c)
    if opt_ok and pad and not any(int(o.otype) == 12 for o in m2.options):
        fail(ctx, "C08/renderer/no-padding-option", f"pad={pad} but the parsed OPT has no PADDING option", c)
    mk, _ = mk_message(dict(c, sections=kept, opt=None, tsig=None))
    for sx in range(4):
        if len(mk.sections[sx]) != len(m2.sections[sx]):
            fail(ctx, "C08/renderer/records-differ", f"section {sx}: {len(m2.sections[sx])} rrsets parsed, {len(mk.sections[sx])} added", c)
            break
        for a, b in zip(mk.sections[sx], m2.sections[sx]):
            d = same_rrset(a, b, m.origin, None)
            if d:
                fail(ctx, "C08/renderer/records-differ", f"section {sx}: {d} of {a.name}", c)
    for clause, text in check_walk(dict(c, sections=kept), w):
        fail(ctx, f"C08/renderer/{clause}", text, c)


def eval_response(ctx: Ctx, c: dict):
    """the object route by which the size limit reaches to_wire: a query (built locally, or sent through to_wire → from_wire
    as a server sees it), make_response, records added, then to_wire with max_size left at its default — the effective
    limit is the *requester's advertised payload* (clamped to [512, 65535]); 65535 when the query had no EDNS"""
    pin_time()
    qname = dns.name.Name(L(c["qname"]))
    q = dns.message.QueryMessage(id=c["id"])
    q.flags = dns.flags.Flag(c["qflags"])
    q.question.append(dns.rrset.RRset(qname, 1, 1))
    key = None
    if c["edns"]:
        opts = [dns.edns.GenericOption(12, b"\0" * c["qpadlen"])] if c["qpad"] else []
        q.use_edns(0, 0, c["payload"], options=opts)
    if c["tsig"] is not None:
        t = c["tsig"]
        key = dns.tsig.Key(dns.name.Name(L(t["name"])), bytes.fromhex(c["secret"]), dns.name.Name(L(t["alg"])))
        q.use_tsig(key)
    if c["route"] == "wire":
        try:
            q = dns.message.from_wire(q.to_wire(), keyring=None if key is None else {key.name: key})
        except Exception as e:  # noqa: BLE001
            fail(ctx, f"C08/response/query-roundtrip/{type(e).__name__}", f"the query does not survive to_wire → from_wire: {e}", c)
            return
    kw = {}
    if c["our_payload"] is not None:
        kw["our_payload"] = c["our_payload"]
    if c["pad"] is not None:
        kw["pad"] = c["pad"]
    resp = dns.message.make_response(q, **kw)
    for sx in (1, 2, 3):
        for r in c["sections"][sx]:
            resp.sections[sx].append(mk_rrset(r))
    # ---- what make_response must have set up (RFC 6891 §6.2.3/6.2.5, RFC 8467 §4.2)
    want_rp = c["payload"] if c["edns"] else 0
    want_pad = 0 if not c["edns"] else c["pad"] if c["pad"] is not None else (468 if c["qpad"] else 0)
    want_ours = None if not c["edns"] else (c["our_payload"] if c["our_payload"] is not None else 8192)
    got = (resp.request_payload, resp.pad, None if resp.opt is None else int(resp.payload))
    if got != (want_rp, want_pad, want_ours) or (resp.opt is not None) != c["edns"]:
        fail(ctx, "C08/response/limit-inputs", f"make_response of a query ({c['route']}) advertising payload {c['payload'] if c['edns'] else 'no EDNS'}: "
             f"(request_payload, pad, payload) = {got}, expected {(want_rp, want_pad, want_ours)}", c)
    c1 = case_of_message(resp, kind="response")
    c1["request_payload"], c1["pad"] = want_rp, want_pad          # the model is told what the requester advertised, not what the object says
    if resp.tsig is not None:
        c1["tsig"] = dict(tsig_case(resp.tsig), mac="")
    L_ = eff_limit(0, want_rp)
    try:
        full = None if want_pad else true_full_size(c1, resp)
    except Exception:  # noqa: BLE001
        full = None
    toks = model_tokens(c1)
    outs = []
    for pt in (False, True):
        tag = "truncate" if pt else "strict"
        line, w = render(resp, 0, pt)
        outs.append(f"{int(pt)}={digest(c1, line, w)}")
        ctx.count(f"response.{tag}." + ("ok" if w is not None else line.split(" ")[1]))
        cc = dict(c, prefer_truncation=pt)
        if w is None:
            if line != "err TooBig":
                fail(ctx, f"C08/response/raises/{line.split(' ')[1]}", f"to_wire(prefer_truncation={pt}) of the response: {line}", cc)
            elif not pt and full is not None and full <= L_:
                fail(ctx, "C08/response/TooBig-although-fits", f"the response is {full} octets, the requester's limit {L_}", cc)
            continue
        try:
            w_default = resp.to_wire(prefer_truncation=pt, want_shuffle=False) if resp.tsig is None else None   # max_size omitted altogether
        except Exception as e:  # noqa: BLE001
            w_default = type(e).__name__
        if w_default is not None and w_default != w:
            fail(ctx, "C08/response/default-max_size", "to_wire() with max_size omitted differs from max_size=0", cc)
        if len(w) > L_:
            fail(ctx, f"C08/response/{tag}/exceeds-requester-payload",
                 f"a response of {len(w)} octets for a requester ({c['route']} query) advertising {c['payload'] if c['edns'] else 'no EDNS'}: effective limit {L_}", cc)
        if want_pad and len(w) % want_pad:
            fail(ctx, "C08/response/padding-multiple", f"pad={want_pad}: {len(w)} octets", cc)
        if full is not None:
            if not pt and len(w) != full:
                fail(ctx, "C08/response/strict/not-the-full-message", f"{len(w)} octets, the complete response has {full}", cc)
            if pt and full > L_ and len(w) >= full:
                fail(ctx, "C08/response/truncate/not-truncated", f"{len(w)} octets although the complete response ({full}) exceeds the requester's limit {L_}", cc)
        if resp.tsig is None:
            check_rendering(ctx, c1, w, 0, pt, None, None, None, want_pad)
    ctx.corr(f"c08.limits 0 0 {toks}", "ok 0=" + outs[0].split("=", 1)[1], c)
    ctx.corr(f"c08.limits 1 0 {toks}", "ok 0=" + outs[1].split("=", 1)[1], c)
    ctx.count("response")
    ctx.count("response.route." + c["route"])


def gen_response(rng):
    base = [b"example", b""]
    def rr(name, rdtype, rds, ttl=300):
        return {"name": hexl(name), "rdclass": 1, "rdtype": rdtype, "covers": 0, "deleting": None, "ttl": ttl, "rdatas": rds}
    edns = rng.chance(5, 6)
    payload = rng.choice([0, 100, 511, 512, 513, 1232, 1232, 4096, 65535, rng.range(512, 9000)])
    target = rng.choice([300, 500, 520, 1200, 1300, 4000, 4200, 9000]) if rng.chance(3, 4) else payload + rng.range(-40, 40)
    sections = [[], [], [], []]
    size, i = 40, 0
    while size < target:
        k = 1 + rng.below(4)
        rds = [{"k": "o", "b": (bytes([i % 256, j]) + rng.bytes(20 + rng.below(180))).hex()} for j in range(k)]
        sections[1 if size < target * 2 // 3 else rng.choice([2, 3])].append(rr([b"h%d" % i] + base, 65280, rds))
        size += sum(12 + len(bytes.fromhex(x["b"])) for x in rds) + 6
        i += 1
    c = {"kind": "response", "id": rng.choice([0, 1, rng.below(65536)]), "qflags": rng.choice([0, 0x0100]), "qname": hexl([b"www"] + base),
         "edns": edns, "payload": payload, "qpad": edns and rng.chance(1, 4), "qpadlen": rng.choice([0, 5, 40]),
         "our_payload": rng.choice([None, 512, 1232, 8192, 65535]), "pad": rng.choice([None, None, 0, 16, 128, 468]),
         "route": rng.choice(["wire", "wire", "local"]), "tsig": None, "sections": sections}
    if rng.chance(1, 4):
        c["tsig"] = {"name": hexl([b"key"] + (base if rng.chance(1, 2) else [b"other", b""])), "alg": hexl([b"hmac-sha256", b""])}
        c["secret"] = rng.bytes(16).hex()
    return c


def eval_padhuge(ctx: Ctx, c: dict):
    """a block size for which the PADDING option itself cannot be encoded (its data would exceed 65535 octets)"""
    m = dns.message.make_query("www.example.", "A", id=1)
    m.use_edns(0, pad=c["pad"])
    for ms in (0, 65535):
        try:
            w = m.to_wire(max_size=ms)
            if len(w) % c["pad"] or len(w) > 65535:
                fail(ctx, "C08/to_wire/padding-multiple/other", f"pad={c['pad']}: {len(w)} octets", c)
        except dns.exception.TooBig:
            pass     # (repair 2d35a76: what every other unrenderable size gives)
        except Exception as e:  # noqa: BLE001
            fail(ctx, f"C08/to_wire/raises/{type(e).__name__}/padding-option-over-65535",
                 f"use_edns(pad={c['pad']}) then to_wire(max_size={ms}) raised {type(e).__name__} ({e}) instead of TooBig", c)
            return


def eval_reemit(ctx: Ctx, c: dict):
    """a signed message as the receiving side holds it — from_wire(keyring) —, optionally modified, given padding with
    use_edns(pad=…) and rendered again: the TSIG record it carries is re-emitted as is (want_tsig_sign false) or, after
    use_tsig, signed anew.  Either way the TSIG owner must be written uncompressed, because the padding counted it so."""
    pin_time()
    m0, key = mk_message(c)
    origin = m0.origin
    try:
        w0 = m0.to_wire(max_size=65535, want_shuffle=False)
        m1 = dns.message.from_wire(w0, keyring={key.name: key}, origin=origin)
    except Exception as e:  # noqa: BLE001
        ctx.count("reemit.unusable:" + type(e).__name__)
        return
    if not m1.had_tsig or m1.tsig is None:
        fail(ctx, "C08/reemit/tsig-not-kept", "from_wire(keyring) of a signed message has no tsig", c)
        return
    if c.get("modify"):
        m1.sections[3].append(dns.rrset.from_text("added.example.", 60, "IN", "A", "192.0.2.9"))
    if c["resign"]:
        t = c["tsig"]
        m1.use_tsig(key, fudge=t["fudge"], original_id=t["orig_id"], tsig_error=t["error"], other_data=bytes.fromhex(t["other"]))
    o = c["opt"] or {"ttl": 0, "payload": 1232, "options": []}
    options = [dns.edns.option_from_wire(t_, bytes.fromhex(b), 0, len(bytes.fromhex(b))) for t_, b in o["options"]]
    ms, pt = c["max_size"], c["prefer_truncation"]
    stale = bytes(m1.tsig[0].to_wire()) if not c["resign"] else None
    outs = []
    c1 = None
    for pad in c["pads"]:
        m1.use_edns((o["ttl"] >> 16) & 0xFF, o["ttl"], o["payload"], c.get("request_payload", 0), options, pad)
        if c1 is None:
            c1 = case_of_message(m1, kind="reemit")
            if c["resign"]:
                c1["tsig"] = dict(c["tsig"])
        line, w = render(m1, ms, pt)
        if c["resign"]:
            outs.append(f"{pad}={digest(c1, line, w)}")
        else:
            outs.append(f"{pad}=" + ("E" + line.split(" ")[1] if w is None else f"{len(w)}.{zlib.adler32(w)}"))
        ctx.count("reemit." + ("ok" if w is not None else line.split(" ")[1]))
        if w is None:
            if line not in ("err TooBig",):
                fail(ctx, f"C08/reemit/raises/{line.split(' ')[1]}", f"pad={pad} max_size={ms}: {line}", dict(c, pads=[pad]))
            continue
        eff = eff_limit(ms, c.get("request_payload", 0))
        cc = dict(c, pads=[pad])
        if len(w) > eff:
            fail(ctx, "C08/reemit/exceeds-limit", f"{len(w)} octets under an effective limit of {eff}", cc)
        if len(w) % pad != 0:
            trig = "tsig-owner-compressed" if tsig_owner_compressed(w) else "other"
            fail(ctx, f"C08/reemit/padding-multiple/{trig}",
                 f"from_wire(keyring) → use_edns(pad={pad}) → to_wire(): {'re-signed' if c['resign'] else 're-emitted'} TSIG, final length {len(w)} = {len(w) % pad} mod {pad}", cc)
        try:
            m2 = dns.message.from_wire(w, keyring=lambda msg, name: False, origin=origin)
        except Exception as e:  # noqa: BLE001
            fail(ctx, f"C08/reemit/unparseable/{type(e).__name__}", f"pad={pad}: the re-rendered message does not parse: {e}", cc)
            continue
        if not m2.had_tsig or m2.opt is None or not any(int(x.otype) == 12 for x in m2.options):
            fail(ctx, "C08/reemit/lost-OPT-or-TSIG", f"pad={pad}: had_tsig={m2.had_tsig} opt={m2.opt is not None}", cc)
            continue
        if stale is not None and (bytes(m2.tsig[0].to_wire()) != stale or m2.tsig.name != m1.tsig.name):
            fail(ctx, "C08/reemit/tsig-changed", f"pad={pad}: the TSIG record that was only re-emitted differs from the one received", cc)
        for sx in range(4):
            a, b = m1.sections[sx], m2.sections[sx]
            if len(b) > len(a) or any(same_rrset(x, y, origin, None) for x, y in zip(a, b)) or (not pt and len(a) != len(b)):
                fail(ctx, "C08/reemit/not-a-prefix", f"pad={pad}: section {sx} of the re-rendered message is not a prefix of the original's", cc)
                break
    toks = model_tokens(c1) if c["resign"] else msg_tokens(c1)
    ctx.corr(f"c08.pads {ms} {int(pt)} {','.join(str(p) for p in c['pads'])} {toks}", "ok " + " ".join(outs), c)
    ctx.count("reemit")
    ctx.count("reemit." + ("resign" if c["resign"] else "as-is"))


def true_full_size(c, m):
    """the size of the complete rendering, computed without Message.to_wire: the sections through a Renderer with an
    unreachable limit, plus the OPT and (uncompressed) TSIG records from the case"""
    r = dns.renderer.Renderer(m.id, int(m.flags), 2 ** 31, m.origin)
    for sec in range(4):
        for rr in m.sections[sec]:
            if sec == 0:
                r.add_question(rr.name, rr.rdtype, rr.rdclass)
            else:
                r.add_rrset(sec, rr, want_shuffle=False)
    return r.output.tell() + fixed_tail_size(c)


def eval_limits(ctx: Ctx, c: dict):
    """explicit max_size values far from the message size (0, tiny, around 512, around and far above 65535), both modes,
    with and without prepend_length: the effective limit is min(max(limit or request_payload or 65535, 512), 65535)"""
    pin_time()
    m, key = mk_message(c)
    origin = m.origin
    full = true_full_size(c, m)
    _, full_w = render(m, 65535)
    rp = c.get("request_payload", 0)
    toks = model_tokens(c)
    for pt in (False, True):
        tag = "truncate" if pt else "strict"
        outs = []
        for lim in c["limits"]:
            cc = dict(c, max_size=lim, prefer_truncation=pt)
            eff = eff_limit(lim, rp)
            try:
                w = m.to_wire(max_size=lim, prefer_truncation=pt, want_shuffle=False)
                line = "ok"
            except dns.exception.TooBig:
                w, line = None, "err TooBig"
            except Exception as e:  # noqa: BLE001 — any other exception is a violation
                w, line = None, "err " + type(e).__name__
                fail(ctx, f"C08/to_wire/raises/{type(e).__name__}", f"to_wire(max_size={lim}, prefer_truncation={pt}) raised {type(e).__name__}", cc)
            outs.append(f"{lim}={digest(c, line, w)}")
            ctx.count(f"limits.{tag}." + ("ok" if w is not None else line.split(" ")[1]))
            if w is None:
                if line == "err TooBig":
                    if not pt and full <= eff:
                        fail(ctx, "C08/to_wire/strict/TooBig-although-fits", f"the complete message is {full} octets, effective limit {eff} (max_size={lim})", cc)
                    if pt and 12 + fixed_tail_size(c) <= eff:
                        fail(ctx, "C08/to_wire/truncate/TooBig-without-padding", f"prefer_truncation at max_size={lim} raised TooBig", cc)
            else:
                if len(w) > eff:
                    fail(ctx, f"C08/to_wire/{tag}/exceeds-limit", f"{len(w)} octets rendered under an effective limit of {eff} (max_size={lim})", cc)
                if not pt and len(w) != full:
                    fail(ctx, "C08/to_wire/strict/not-the-full-message", f"{len(w)} octets, the complete message has {full}", cc)
                if pt and full > eff and len(w) >= full:
                    fail(ctx, "C08/to_wire/truncate/not-truncated", f"{len(w)} octets although the complete message ({full}) exceeds the effective limit {eff}", cc)
                if len(w) <= 65535:
                    check_rendering(ctx, c, w, lim, pt, full_w, key, origin, c["pad"])
            # prepend_length: the same outcome, the same octets behind a two-octet length
            try:
                w2 = m.to_wire(max_size=lim, prefer_truncation=pt, want_shuffle=False, prepend_length=True)
                l2 = "ok"
            except dns.exception.TooBig:
                w2, l2 = None, "err TooBig"
            except Exception as e:  # noqa: BLE001
                w2, l2 = None, "err " + type(e).__name__
                fail(ctx, f"C08/to_wire/prepend-length/raises/{type(e).__name__}", f"to_wire(max_size={lim}, prefer_truncation={pt}, prepend_length=True) raised {type(e).__name__}", cc)
            if (w is None) != (w2 is None) or (w is not None and w2 != struct.pack("!H", len(w) & 0xFFFF) + w):
                if l2 in ("ok", "err TooBig"):
                    fail(ctx, "C08/to_wire/prepend-length/differs", f"max_size={lim}: without the prefix {line}, with it {l2}; not length + the same octets", cc)
        ctx.corr(f"c08.limits {int(pt)} {','.join(str(x) for x in c['limits'])} {toks}", "ok " + " ".join(outs), c)
    ctx.count("limits")


def eval_steps(ctx: Ctx, c: dict):
    """Renderer-level trace: every add_* in order, continuing after TooBig; rollback must restore buffer and table"""
    pin_time()
    m, _ = mk_message(c)
    ms, res = c["max_size"], c["reserve"]
    r = dns.renderer.Renderer(m.id, int(m.flags), ms, m.origin)
    try:
        r.reserve(res)
    except ValueError:
        ctx.corr(f"c08.steps {ms} {res} {msg_tokens(c)}", "err ValueError", c)
        return
    tr = []
    for sec in range(4):
        for rr in m.sections[sec]:
            before_len = r.output.tell()
            before_tbl = dict(r.compress)
            try:
                if sec == 0:
                    r.add_question(rr.name, rr.rdtype, rr.rdclass)
                else:
                    r.add_rrset(sec, rr, want_shuffle=False)
                tr.append(f"ok:{r.output.tell()}:{len(r.compress)}")
                if r.output.tell() > r.max_size:
                    fail(ctx, "C08/renderer/exceeds-limit", f"buffer {r.output.tell()} > max_size {r.max_size} after a successful add", c)
            except dns.exception.TooBig:
                tr.append(f"big:{r.output.tell()}:{len(r.compress)}")
                ctx.count("steps.rollback")
                buf = r.output.getvalue()
                if len(buf) != before_len or r.output.tell() != before_len:
                    fail(ctx, "C08/renderer/rollback/buffer", f"buffer length {len(buf)} after rollback, {before_len} before the add", c)
                if dict(r.compress) != before_tbl:
                    fail(ctx, "C08/renderer/rollback/table", "compression table after rollback differs from the table before the add", c)
                for k, v in r.compress.items():
                    if v >= len(buf):
                        fail(ctx, "C08/renderer/rollback/dangling-pointer", f"table entry {k} -> {v} beyond the {len(buf)}-octet buffer", c)
            # every table entry decodes to its key (independent decoder)
        buf = r.output.getvalue()
        for k, v in r.compress.items():
            try:
                got, _ = C03.walk_name(buf, v, set(), [])
            except WalkError as e:
                fail(ctx, "C08/renderer/table-unsound", f"entry {k} -> {v}: {e}", c)
                continue
            if lower(got) != lower(list(k.labels)):
                fail(ctx, "C08/renderer/table-unsound", f"entry {k} -> {v} decodes to {got!r}", c)
    r.release_reserved()
    r.write_header()
    tbl = ";".join(f"{enc_labels(k.labels)}@{v}" for k, v in r.compress.items())
    ctx.corr(f"c08.steps {ms} {res} {msg_tokens(c)}", f"ok {' '.join(tr)} out={hx(r.get_wire())} max={r.max_size} tbl={tbl}", c)
    ctx.count("steps")


def eval_case(ctx: Ctx, c: dict):
    k = c["kind"]
    if k == "sweep":
        eval_sweep(ctx, c)
    elif k == "pads":
        eval_pads(ctx, c)
    elif k == "one":
        eval_one(ctx, c)
    elif k == "steps":
        eval_steps(ctx, c)
    elif k == "limits":
        eval_limits(ctx, c)
    elif k == "robj":
        eval_robj(ctx, c)
    elif k == "reemit":
        eval_reemit(ctx, c)
    elif k == "padhuge":
        eval_padhuge(ctx, c)
    elif k == "response":
        eval_response(ctx, c)
    else:
        raise ValueError(k)


# ------------------------------------------------------------------------------------------------
# generators
# ------------------------------------------------------------------------------------------------
def gen_sized(rng, target, want_opt=None, want_tsig=None, tsig_mode=None):
    """a well-formed message whose full rendering is about `target` octets"""
    for attempt in range(6):
        c = gen_message(rng, size="tiny", want_opt=want_opt, want_tsig=False, origin_mode=rng.choice([0, 1, 4, 5, 6, 7]))
        c["pad"] = 0
        c["max_size"] = 65535
        c["request_payload"] = 0
        c["flags"] &= ~0x0200 if rng.chance(7, 8) else 0xFFFF
        origin = None if c["origin"] is None else L(c["origin"])
        ng = NameGen(rng, origin)
        if want_tsig if want_tsig is not None else rng.chance(1, 3):
            c["tsig"] = gen_tsig(rng, ng, c)
            if tsig_mode == "compressible" or (tsig_mode is None and rng.chance(1, 2)):
                # key name under a suffix that the message uses
                base = [b"example", b""] if origin is None else origin
                kn = [b"key"] + base
                c["tsig"]["name"] = hexl(kn)
                c["sections"][0] = [{"name": hexl([b"www"] + base if origin is None else [b"www"]), "rdclass": 1, "rdtype": 1, "covers": 0,
                                     "deleting": None, "ttl": 0, "rdatas": []}]
            elif tsig_mode == "plain":
                c["tsig"]["name"] = hexl([b"key", b"unrelated", b""])
        try:
            size = None
            for _ in range(80):
                n = normalise(c)
                if not wellformed(n):
                    break
                m, _ = mk_message(n)
                _, w = render(m, 65535)
                if w is None:
                    break
                size = len(w)
                if size >= target:
                    return n
                sec = rng.choice([1, 1, 2, 3]) if size < target * 2 // 3 else 3 if rng.chance(2, 3) else 2
                r = gen_rrset(rng, ng)
                keep = json.loads(json.dumps(c))
                c["sections"][sec].append(r)
                try:
                    if not wellformed(normalise(c)):
                        c = keep
                except Exception:
                    c = keep
        except Exception:
            continue
    return None


def run_one(ctx, c):
    ctx.case((c["kind"], json.dumps(c, sort_keys=True)), sample=c if len(json.dumps(c)) < 2500 else None)
    eval_case(ctx, c)


BIG_LIMITS = [0, 65534, 65535, 65536, 70000, 100000, 2 ** 31]
SMALL_LIMITS = [0, 1, 12, 511, 512, 513, 65535, 65536]


def gen_large(rng, target, want_opt, want_tsig):
    """a message of a few hundred opaque records whose complete rendering is exactly `target` octets (around 64 KiB)"""
    def rr(name, rdtype, rds, ttl=300):
        return {"name": hexl(name), "rdclass": 1, "rdtype": rdtype, "covers": 0, "deleting": None, "ttl": ttl, "rdatas": rds}
    base = [b"example", b""]
    c = {"kind": "limits", "id": rng.below(65536), "flags": rng.choice([0x8400, 0x8000, 0x8600]), "origin": None, "request_payload": 0,
         "pad": 0, "sections": [[rr([b"big"] + base, 16, [], 0)], [], [], []], "opt": None, "tsig": None, "limits": BIG_LIMITS}
    if want_opt:
        c["opt"] = {"ttl": rng.choice([0, 0x8000]), "payload": rng.choice([1232, 4096, 65535]), "options": [[10, rng.bytes(8).hex()]] if rng.chance(1, 2) else []}
    if want_tsig:
        c["tsig"] = {"name": hexl([b"key"] + (base if rng.chance(1, 2) else [b"other", b""])), "alg": hexl([b"hmac-sha256", b""]), "time": C03.FIXED_TIME,
                     "fudge": 300, "mac": "", "orig_id": c["id"], "error": 0, "other": ""}
        c["secret"] = rng.bytes(16).hex()
    size = 12 + 13 + 4 + fixed_tail_size(c)
    i = 0
    while size < target - 2600:
        k = 3 + rng.below(7)
        rds = [{"k": "o", "b": (bytes([i % 256, j]) + rng.bytes(150 + rng.below(100))).hex()} for j in range(k)]
        own = [b"r%d" % i] + base
        sec = 1 if size < target // 2 else 2 if size < target * 3 // 4 else 3
        c["sections"][sec].append(rr(own, 65280, rds))
        size += (len(own[0]) + 1 + 2) + 10 + len(bytes.fromhex(rds[0]["b"])) + sum(2 + 10 + len(bytes.fromhex(x["b"])) for x in rds[1:])
        i += 1
    # the last record set takes the message to exactly `target`
    own = [b"last"] + base
    m0, _ = mk_message(c)
    size = true_full_size(c, m0)
    rest = target - size - (5 + 2 + 10)
    if rest < 1:
        return None
    c["sections"][3].append(rr(own, 65281, [{"k": "o", "b": rng.bytes(rest).hex()}]))
    m, _ = mk_message(c)
    if true_full_size(c, m) != target:
        return None
    return c


ROBJ_PADS = [2, 3, 4, 5, 7, 8, 16, 32, 64, 128, 468]
ROBJ_ALGS = [b"hmac-sha256", b"hmac-sha1", b"hmac-sha512", b"hmac-sha224", b"hmac-sha384", b"HMAC-SHA256"]


def gen_robj(rng):
    """a script for the Renderer object route: small message, OPT with options, a block size, a TSIG key whose name mostly
    shares a suffix with (or equals) a name already rendered, caller-supplied opt_size/tsig_size (mostly the exact ones),
    and — two times out of three — a filler record sized so that the unpadded size is already a multiple of the block"""
    use_origin = rng.chance(1, 6)
    base = [b"example", b""]

    def nm(*labels):
        return hexl(list(labels) + ([] if use_origin else base))

    def rr(name, rdtype, rds, ttl=300):
        return {"name": name, "rdclass": 1, "rdtype": rdtype, "covers": 0, "deleting": None, "ttl": ttl, "rdatas": rds}

    def raw(n):
        return {"k": "o", "b": rng.bytes(n).hex()}

    ql = b"w" * (1 + rng.below(40)) if rng.chance(1, 2) else rng.choice([b"www", b"WWW", b"a", b"key"])
    sections = [[] if rng.chance(1, 8) else [rr(nm(ql), 1, [], 0)], [], [], []]
    pool = [rr(nm(ql), 1, [raw(4), raw(4)]), rr(nm(ql), 2, [{"k": "n", "n": nm(b"ns")}]),
            rr(nm(b"mail"), 15, [{"k": "m", "p": 10, "n": nm(b"mx", ql)}]),
            rr(hexl([b"other", b"org", b""]), 65280, [raw(rng.below(60))]),
            rr(nm(b"ns"), 28, [raw(16)])]
    chosen = [pool.pop(rng.below(len(pool))) for _ in range(rng.below(4))]
    for sc, x in zip(sorted(1 + rng.below(3) for _ in chosen), chosen):
        sections[sc].append(x)
    filler = rng.chance(5, 6)
    if filler:
        sections[3].append(rr(nm(b"fill"), 65281, [raw(rng.below(24))]))
    c = {"kind": "robj", "id": rng.below(65536), "flags": rng.choice([0, 0x0100, 0x8400, 0x8180]), "origin": hexl(base) if use_origin else None,
         "request_payload": 0, "pad": 0, "sections": sections, "opt": None, "tsig": None}
    if rng.chance(9, 10):
        c["opt"] = {"ttl": rng.choice([0, 0x8000, 0x01000000]), "payload": rng.choice([512, 1232, 4096]),
                    "options": gen_options(rng)}
    if rng.chance(5, 6):
        kn = rng.choice([[b"key"] + base, [ql] + base, [b"key", ql] + base, base, [b"key", b"other", b""], [b"KEY", b"EXAMPLE", b""],
                         [b"k" * (1 + rng.below(30))] + base])
        c["tsig"] = {"name": hexl(kn), "alg": hexl([rng.choice(ROBJ_ALGS), b""]), "time": C03.FIXED_TIME, "fudge": rng.choice([300, 1, 65535]),
                     "mac": "", "orig_id": rng.choice([c["id"], rng.below(65536)]), "error": 0, "other": ""}
        c["secret"] = rng.bytes(rng.choice([8, 16, 32])).hex()
    pad = 0 if rng.chance(1, 10) else rng.choice(ROBJ_PADS) if rng.chance(2, 3) else 1 + rng.below(64)
    if rng.chance(1, 60):
        pad = rng.choice([65536, 65600, 70000, 200000])   # a padding the PADDING option cannot (or can only just) carry
    osz, tsz = opt_size_of(c, pad), tsig_size_of(c)

    def sections_size():
        m, _ = mk_message(c)
        return true_full_size(dict(c, opt=None, tsig=None), m)

    if pad and pad < 1000 and filler and c["opt"] is not None and rng.chance(2, 3):
        d = (-(sections_size() + osz + tsz)) % pad
        f = sections[3][-1]["rdatas"][0]
        f["b"] = (bytes.fromhex(f["b"]) + rng.bytes(d)).hex()
    pos = sections_size()
    if rng.chance(1, 8):
        osz += rng.below(5)
        tsz = rng.choice([0, tsz + 1, max(0, tsz - 3), tsz])
    total = pos + osz + tsz + (((-(pos + osz + tsz)) % pad) if pad and c["opt"] is not None else 0)
    if rng.chance(1, 6):
        # a non-DNS exception in the middle of an item (struct.error from a TTL that does not fit, ValueError / TypeError /
        # OverflowError / a BaseException from an RDATA's to_wire, ValueError from the owner), the caller skips the item; a
        # later rrset has the same owner, so it would compress into whatever the failed add left behind
        how = rng.choice(["ttl-neg", "ttl-big", "rd-ValueError", "rd-TypeError", "rd-OverflowError", "rd-HarnessAbort", "owner-ValueError"])
        sb = rng.choice([1, 2, 3])
        boom = rr(nm(b"cache"), 15, [{"k": "m", "p": 10 + j, "n": nm(b"mx%d" % j, b"cache")} for j in range(1 + rng.below(3))])
        boom["boom"] = {"how": how, "at": rng.below(len(boom["rdatas"]) + 1), "route": rng.choice(["rrset", "rdataset"])}
        sections[sb].insert(rng.below(len(sections[sb]) + 1), boom)
        sections[rng.choice([x for x in (1, 2, 3) if x >= sb])].append(rr(nm(b"cache"), 1, [raw(4)]))
        sections[3].append(rr(nm(b"mx0", b"cache"), 28, [raw(16)]))
        xf_no_ooo = True
    else:
        xf_no_ooo = False
    if not use_origin and rng.chance(1, 40):
        # an exception other than TooBig in the middle of a record: a relative name inside the RDATA and no origin
        sections[rng.choice([1, 2, 3])].insert(0, rr(nm(b"ok"), 2, [{"k": "n", "n": nm(b"ns1")}, {"k": "n", "n": hexl([b"relative-target"])}][rng.below(2):]))
    c["kw"] = rng.chance(1, 3)
    c["xf"] = ((rng.below(8) & (3 if xf_no_ooo else 7)) if rng.chance(1, 2) else 0) | (8 | (rng.below(3) << 4) if rng.chance(1, 8) else 0)
    c.update(pad=pad, opt_size=osz, tsig_size=tsz, hdr=rng.below(3) if c["tsig"] is None else rng.choice([0, 2]),  # the header must be written before signing
             multi=rng.chance(1, 3), reserve=rng.chance(1, 2),
             max_size=65535 if rng.chance(5, 6) else max(12, total + rng.range(-24, 3)))
    return c


def generate(ctx: Ctx, scale: int, rng):
    n = lambda q: max(1, q * scale)
    # the Renderer object route (add_opt with pad/opt_size/tsig_size, then add_tsig / add_multi_tsig)
    for i in range(3000 if scale == 1 else 1000 * scale):
        run_one(ctx, gen_robj(rng))
    # explicit limits far from the message size: around and above 64 KiB on large messages, around 512 and below on small ones
    if scale == 1:
        # quick: one message just over 64 KiB at three limits (the model takes ~0.8 s per rendering; max_size=0 on large messages is in the thorough tier)
        plan = [(65536 + rng.below(3), rng.chance(1, 2), rng.chance(1, 2), [65535, 65536, 2 ** 31])]
    else:
        plan = [(t, rng.chance(1, 2), rng.chance(1, 2), BIG_LIMITS)
                for t in [65000, 65533, 65534, 65535, 65536, 65537, 66000, 70000, 72000] * max(1, scale // 30)]
    for t, wo, wt, lims in plan:
        c = gen_large(rng, t, want_opt=wo, want_tsig=wt)
        if c is None:
            ctx.count("gen.rejected")
            continue
        c["limits"] = lims
        run_one(ctx, c)
    # responses made by make_response from a query that went through the wire; max_size left at its default
    for i in range(n(60)):
        run_one(ctx, gen_response(rng))
    # a received signed message, padded and rendered again (TSIG re-emitted as is, or signed anew)
    for i in range(n(40)):
        c = gen_sized(rng, rng.choice([60, 150, 300, 520]), want_opt=rng.chance(1, 2), want_tsig=True,
                      tsig_mode="compressible" if rng.chance(3, 4) else None)
        if c is None or c["tsig"] is None:
            ctx.count("gen.rejected")
            continue
        c["kind"] = "reemit"
        c["resign"] = rng.chance(1, 3)
        c["modify"] = rng.chance(1, 3) and c["origin"] is None
        c["pads"] = PADS if i % 8 == 0 else sorted(set([rng.choice(PADS) for _ in range(6)] + [16, 128]))
        c["request_payload"] = rng.choice([0, 0, 1232])
        c["max_size"] = rng.choice([0, 65535, 512, 1232])
        c["prefer_truncation"] = rng.chance(1, 2)
        run_one(ctx, c)
    # every limit around the message size with padding switched on (the OPT reserve must include the PADDING option header)
    for i in range(n(3)):
        c = gen_sized(rng, rng.choice([520, 560, 640]), want_opt=True, want_tsig=rng.chance(1, 2))
        if c is None:
            ctx.count("gen.rejected")
            continue
        c["kind"] = "sweep"
        c["pad"] = rng.choice([1, 1, 2, 3, 8, 16, 31])
        run_one(ctx, c)
    # an RDATA longer than RDLENGTH can express
    for i in range(n(2)):
        nb = rng.choice([65535, 65536, 65536 + rng.below(5000)])
        c = {"kind": "one", "id": rng.below(65536), "flags": 0x8400, "origin": None, "request_payload": 0, "pad": 0, "opt": None, "tsig": None,
             "sections": [[], [{"name": hexl([b"big", b"example", b""]), "rdclass": 1, "rdtype": 65280, "covers": 0, "deleting": None, "ttl": 5,
                                "rdatas": [{"k": "o", "b": (rng.bytes(16) * (nb // 16 + 1))[:nb].hex()}]}], [], []],
             "max_size": rng.choice([0, 65535, 100000]), "prefer_truncation": rng.chance(1, 2)}
        run_one(ctx, c)
    for i in range(n(6)):
        c = gen_sized(rng, rng.choice([40, 300, 505, 511, 512, 513, 520, 560]), want_opt=rng.chance(1, 2), want_tsig=rng.chance(1, 3))
        if c is None:
            ctx.count("gen.rejected")
            continue
        c["kind"] = "limits"
        c["request_payload"] = rng.choice([0, 0, 100, 512, 530, 1232, 70000])
        c["limits"] = SMALL_LIMITS
        run_one(ctx, c)
    for i in range(n(11)):
        c = gen_sized(rng, rng.choice([520, 600, 700, 800, 900, 1000, 1200, 1500]))
        if c is None:
            ctx.count("gen.rejected")
            continue
        c["kind"] = "sweep"
        run_one(ctx, c)
    for i in range(n(12)):
        c = gen_sized(rng, rng.choice([60, 150, 300, 520, 700]), want_opt=True, want_tsig=rng.chance(2, 3))
        if c is None:
            ctx.count("gen.rejected")
            continue
        c["kind"] = "pads"
        c["pads"] = PADS if i % 4 else PADS + [255, 256, 512, 1000, 4096, 65535, 65536, 65600, 70000, 131072]
        m, _ = mk_message(c)
        _, w = render(m, 65535)
        c["max_size"] = rng.choice([65535, 65535, 512, len(w) + rng.choice([0, 1, 5, 40, 130])])
        c["prefer_truncation"] = rng.chance(1, 2)
        run_one(ctx, c)
    for i in range(n(50)):
        c = gen_sized(rng, rng.choice([200, 400, 700]), want_opt=False, want_tsig=False)
        if c is None:
            continue
        c["kind"] = "steps"
        m, _ = mk_message(c)
        _, w = render(m, 65535)
        c["max_size"] = rng.choice([len(w) - rng.below(len(w) // 2), rng.range(30, len(w)), len(w), len(w) + 1, 65535, 12, 20])
        c["reserve"] = rng.choice([0, 0, 11, 40, rng.below(c["max_size"] + 2)])
        run_one(ctx, c)


def check_argument_errors(ctx):
    """argument checks of the size/padding API"""
    c = {"kind": "api"}
    m = dns.message.Message(id=1)
    for bad in (-1, -2):
        try:
            m.use_edns(0, pad=bad)
            fail(ctx, "C08/use_edns/negative-pad-accepted", f"use_edns(pad={bad}) did not raise ValueError (pad is now {m.pad})", c)
        except ValueError:
            pass
    m.use_edns(0, pad=0)
    if m.pad != 0 or m.opt is None:
        fail(ctx, "C08/use_edns/pad-zero", "use_edns(pad=0) must be accepted and mean no padding", c)
    r = dns.renderer.Renderer(1, 0, 100)
    for bad in (-1, -5):
        try:
            r.reserve(bad)
            fail(ctx, "C08/renderer/reserve/negative-accepted", f"reserve({bad}) did not raise ValueError", c)
        except ValueError:
            pass
    try:
        r.reserve(100)   # all of it is allowed
    except ValueError:
        fail(ctx, "C08/renderer/reserve/whole-budget-refused", "reserve(max_size) raised ValueError", c)
        r.reserved, r.max_size = 100, 0
    try:
        r.reserve(1)
        fail(ctx, "C08/renderer/reserve/over-budget-accepted", "reserve(1) with nothing left did not raise ValueError", c)
    except ValueError:
        pass
    ctx.count("api-errors")


def run(ctx: Ctx):
    check_argument_errors(ctx)
    for p in sorted(glob.glob(os.path.join(VERIF, "corpus", "C08", "*.json"))):
        c = json.load(open(p))
        ctx.case(("corpus", p), sample=None)
        eval_case(ctx, c)
        ctx.count("corpus")
    generate(ctx, 1 if ctx.tier == "quick" else 30, ctx.rng)


def search(ctx: Ctx):
    for m in ctx.mismatches[:30]:
        if m.case is not None:
            try:
                eval_case(ctx, m.case)
            except Exception:
                pass
    generate(ctx, 2 if ctx.tier == "quick" else 30, ctx.rng.fork(7))


def replay(ctx: Ctx, obj: dict):
    c = obj["case"]
    if c.get("kind") in ("sweep",) and "prefer_truncation" in c:
        c = dict(c, kind="one")
    eval_case(ctx, c)
    return [f.what for f in ctx.failures]


LEVEL = {
    "text": "Lean 4 theorems over an executable model of dns/renderer.py (_track_size/_rollback, reserve/release_reserved, "
            "add_question/add_rrset/add_opt with the padding arithmetic, write_header) and Message.to_wire (clamp to [512, 65535], "
            "OPT/TSIG reserves, prefer_truncation): never_exceeds — a rendering is never longer than the clamped limit, for all messages, "
            "limits and both modes; rollback_exact — an add that overflows leaves buffer, compression table and counts exactly as before "
            "(so no pointer into removed bytes), in every reachable state; rollback_exact_any — the same for any exception raised while an item is "
            "being written, whatever the unfinished write had appended (repair 2e4231d); truncation_prefix — with prefer_truncation the result is byte for "
            "byte the untruncated rendering of the message cut to its first k record sets (whole sets, section order, same OPT/TSIG) with TC "
            "added iff the first dropped set lies before ADDITIONAL; truncation_counts_opt_tsig — truncation never drops the OPT or TSIG record "
            "and the header counts of the truncated result are exactly the records present (ARCOUNT counts OPT and TSIG); result_parses — "
            "that result parses to that prefix, padding option and TSIG included (class of C03.parse_render_partial: absolute names, not an "
            "UPDATE); result_parses_origin — the same for messages with an origin and relative names, parsed with that origin: the prefix after "
            "relativisation; padding_multiple — with padding the length, TSIG included, is a multiple of the block for every "
            "message, limit and mode (the TSIG is rendered against a fresh compression table, so its reserve is exact: repaired D07); "
            "padding_multiple_reemit — also for a message parsed with a key, modified or not, padded with use_edns and rendered again with its TSIG "
            "re-emitted as received or signed anew (the table is cleared because a TSIG is present, not because it was signed); "
            "renderer_padding_multiple — the same through the Renderer object (add_opt with the exact opt_size/tsig_size, write_header, "
            "add_tsig/add_multi_tsig = _write_tsig): the signed message is a multiple of the block in any renderer state, aligned or not, "
            "compressible key name or not, and the TSIG leaves the table alone; "
            "padding_too_long_is_too_big — a block whose padding would not fit a PADDING option (> 65535 octets) is TooBig before anything is written; "
            "reserve_too_big — OPT+TSIG reserves beyond the limit give TooBig. Tied to the code by correspondence at every limit from 505 to len+2, at limits on both sides of the [512, 65535] clamp on small and on 64-KiB messages, every pad block in {1..64,128,468}, "
            "the Renderer object route (octets with the MAC masked, table and per-call trace equal the model's; direct oracle: length ≡ 0 mod "
            "block, ≤ max_size, from_wire with the keyring verifies the TSIG, records/OPT/PADDING present) and step-by-step Renderer traces.",
    "note": "Trusted: Lean kernel + propext/Classical.choice/Quot.sound; the statements in lean/Props/C08.lean; the correspondence "
            "harness and its generators; harness/extract_C03.py. The TSIG MAC is abstract and fixed-size. Tie-only: result_parses for "
            "messages of opcode UPDATE (C03.update_forms is stated for untruncated renderings); argument checks (negative reserve / pad) — direct oracle.",
    "technique": "Lean 4 proof (invariant over the rendering fold; exact-rollback lemma; prefix characterisation) + "
                 "model-vs-implementation correspondence at every limit",
    "design_ref": "DESIGN.md §7 C08",
}

"""Immutability / mutator-surface table of C07, enumerated from the imported dnspython modules on every run.

`probe()` returns the list of entries `(kind, class, member, ok, detail)`; `generate()` renders it as
`lean/Generated/C07.lean` (`namespace ConstsC07`), where the theorem `C07.immutability_surface_partial`
closes it by `decide`.  This is an exhaustive enumeration of a finite surface, not a proof about Python objects
(labelled partial in the manifest).

Enumerated:
 * dns.name.Name and every implemented Rdata class (all `(class, type)` pairs of dns.rdatatype.RdataType x
   {IN, CH, ANY} that do not resolve to GenericRdata, plus GenericRdata): the class carries the immutable mixin,
   `__setattr__`/`__delattr__` are the mixin's; for every slot of the MRO, on an
   instance whose slots are all initialised, `setattr` and `delattr` raise and leave the value in place;
 * for every class with a specimen (all rdatas of /repo/tests/example plus a few literals): every slot value is
   an immutable carrier (int/str/bytes/bool/None/float/enum, Name, Rdata, tuple of carriers, dns.immutable.Dict
   of carriers, and the few frozen helper classes), recursively;
 * dns.rdataset.ImmutableRdataset: every public callable of Rdataset that changes a mutable Rdataset for some
   argument from a fixed argument pool is a *mutator*; on the immutable wrapper each such call raises or leaves
   the value unchanged; attribute assignment/deletion raises; functional operations return ImmutableRdataset;
 * dns.immutable.Dict: no mutating mapping method, attribute assignment raises.
"""
import os
import sys

REPO = os.environ.get("VERIF_REPO", "/repo")
if REPO not in sys.path:
    sys.path.insert(0, REPO)

SPECIMEN_TEXT = [
    ("IN", "KEY", "512 255 1 AQMFD5raczCJHViKtLYhWGz8hMY9UGRuniJDBzC7w0aRyzWZriO6i2odGWWQVucZqKVsENW91IOW4vqudngPZsY3GvQ/xVA8/7pyFj6b7Esga60zyGW6LFe9r8n6paHrlG5ojqf0BaqHT+8="),
    ("IN", "NINFO", '"foo" "bar"'),
    ("IN", "SIG", "NXT 1 3 3600 20200101000000 20030101000000 2143 foo.example. MxFcby9k/yvedMfQgKzhH5er0Mu/vILz45IkskceFGgiWCn/GxHhai6VAuHAoNUz4YoU1tVfSCSqQYn6//11U6Nld80jEeC8aTrO+KKmCaY="),
    ("CH", "A", "a.example. 73"),
]


def _all_slots(cls):
    out = []
    for k in cls.__mro__:
        for s in getattr(k, "__slots__", []) or []:
            if isinstance(s, str) and s not in out:
                out.append(s)
    return out


def rdata_classes():
    import dns.rdata
    import dns.rdataclass
    import dns.rdatatype

    seen = []
    for t in dns.rdatatype.RdataType:
        for c in (dns.rdataclass.IN, dns.rdataclass.CH, dns.rdataclass.ANY):
            try:
                k = dns.rdata.get_rdata_class(c, t)
            except Exception:
                continue
            if k not in seen:
                seen.append(k)
    if dns.rdata.GenericRdata not in seen:
        seen.append(dns.rdata.GenericRdata)
    return sorted(seen, key=lambda k: (k.__module__, k.__qualname__))


def specimens():
    """class -> one real instance"""
    import dns.name
    import dns.rdata
    import dns.zone

    out = {}
    try:
        z = dns.zone.from_file(os.path.join(REPO, "tests", "example"), origin="example.", relativize=False)
        for _, node in sorted(z.nodes.items()):
            for rds in node.rdatasets:
                for rd in rds:
                    out.setdefault(type(rd), rd)
    except Exception:
        pass
    for c, t, text in SPECIMEN_TEXT:
        try:
            rd = dns.rdata.from_text(c, t, text, origin=dns.name.root)
            out.setdefault(type(rd), rd)
        except Exception:
            pass
    try:
        rd = dns.rdata.GenericRdata(1, 65280, b"\x01\x02")
        out.setdefault(type(rd), rd)
    except Exception:
        pass
    return out


def carrier_ok(v, depth=0):
    """is `v` an immutable value all the way down?"""
    import enum

    import dns.immutable
    import dns.name
    import dns.rdata

    if depth > 8:
        return False
    if v is None or isinstance(v, (bool, int, float, str, bytes, enum.Enum, dns.name.Name, dns.rdata.Rdata)):
        return not isinstance(v, (bytearray,))
    if isinstance(v, (tuple, frozenset)):
        return all(carrier_ok(x, depth + 1) for x in v)
    if isinstance(v, dns.immutable.Dict):
        return all(carrier_ok(k, depth + 1) and carrier_ok(x, depth + 1) for k, x in v.items())
    if isinstance(v, (list, dict, set, bytearray)):
        return False
    # helper value classes (e.g. svcb params, APL items, Bitmap, Gateway): must carry the immutable mixin themselves
    from dns._immutable_ctx import _Immutable

    if isinstance(v, _Immutable):
        return all(carrier_ok(getattr(v, s), depth + 1) for s in _all_slots(type(v)) if hasattr(v, s))
    import ipaddress

    if isinstance(v, (ipaddress.IPv4Address, ipaddress.IPv6Address)):
        return True
    return False


def _raises(fn):
    try:
        fn()
    except (TypeError, AttributeError):
        return True
    except Exception:
        return False
    return False


def probe_class(cls, name, specimen):
    """entries for one immutable value class"""
    from dns._immutable_ctx import _Immutable

    ent = []
    ent.append(("mixin", name, "_Immutable in MRO", _Immutable in cls.__mro__, ""))
    ent.append(("mixin", name, "__setattr__ is the mixin's", cls.__setattr__ is _Immutable.__setattr__, ""))
    ent.append(("mixin", name, "__delattr__ is the mixin's", cls.__delattr__ is _Immutable.__delattr__, ""))
    slots = _all_slots(cls)
    ent.append(("mixin", name, "has slots", len(slots) > 0, ""))
    # an instance with every slot initialised (bypassing __init__), probed through the normal attribute protocol
    try:
        inst = cls.__new__(cls)
        for s in slots:
            object.__setattr__(inst, s, 0)
        for s in slots:
            ok1 = _raises(lambda: setattr(inst, s, 1)) and getattr(inst, s) == 0
            ok2 = _raises(lambda: delattr(inst, s)) and hasattr(inst, s)
            ent.append(("setattr", name, s, ok1, ""))
            ent.append(("delattr", name, s, ok2, ""))
        ent.append(("setattr", name, "<new attribute>", _raises(lambda: setattr(inst, "zz_new", 1)) and not hasattr(inst, "zz_new"), ""))
    except Exception as e:  # could not even build the probe instance
        ent.append(("mixin", name, "probe instance", False, repr(e)))
    if specimen is not None:
        # the whole payload lives in slots (what __getstate__ saves): nothing in an instance __dict__
        ent.append(("field", name, "<instance __dict__ empty>", len(getattr(specimen, "__dict__", {})) == 0, ""))
        for s in slots:
            if hasattr(specimen, s):
                v = getattr(specimen, s)
                ent.append(("field", name, s, carrier_ok(v), type(v).__name__))
                ok1 = _raises(lambda: setattr(specimen, s, v)) and getattr(specimen, s) is v
                ent.append(("setattr-live", name, s, ok1, ""))
    else:
        ent.append(("no-specimen", name, "-", True, "field types not probed"))
    return ent


def _rds_state(r):
    return (int(r.rdclass), int(r.rdtype), int(r.covers), r.ttl, tuple(id(x) for x in r.items))


def probe_immutable_rdataset():
    import dns.immutable
    import dns.rdata
    import dns.rdataset

    ent = []
    a1 = dns.rdata.from_text("IN", "A", "10.0.0.1")
    a2 = dns.rdata.from_text("IN", "A", "10.0.0.2")
    a3 = dns.rdata.from_text("IN", "A", "10.0.0.3")

    def fresh():
        r = dns.rdataset.Rdataset(1, 1, 0, 300)
        r.add(a1)
        r.add(a2)
        return r

    def other():
        o = dns.rdataset.Rdataset(1, 1, 0, 100)
        o.add(a2)
        o.add(a3)
        return o

    argpool = [(), (a1,), (a3,), (a3, 5), ("other",), ("self",), (0,), (slice(0, 1),), (7,), ([a3],)]
    names = sorted(n for n in dir(dns.rdataset.Rdataset)
                   if callable(getattr(dns.rdataset.Rdataset, n, None)) and (not n.startswith("_") or n in (
                       "__delitem__", "__ior__", "__iand__", "__iadd__", "__isub__", "__ixor__", "__setitem__")))
    mutators = []
    for n in names:
        is_mut = False
        for args in argpool:
            m = fresh()
            o = other()
            real = tuple(o if x == "other" else (m if x == "self" else x) for x in args) if args else ()
            before = _rds_state(m)
            try:
                getattr(m, n)(*real)
            except Exception:
                pass
            if _rds_state(m) != before:
                is_mut = True
        if is_mut:
            mutators.append(n)
    ent.append(("rdataset", "Rdataset", "mutators found", len(mutators) >= 12, ",".join(mutators)))
    for n in mutators:
        ok = True
        detail = []
        for args in argpool:
            im = dns.rdataset.ImmutableRdataset(fresh())
            o = other()
            real = tuple(o if x == "other" else (im if x == "self" else x) for x in args) if args else ()
            before = _rds_state(im)
            try:
                getattr(im, n)(*real)
            except Exception:
                pass
            if _rds_state(im) != before:
                ok = False
                detail.append(repr(args))
        ent.append(("mutator", "ImmutableRdataset", n, ok, ";".join(detail)))
    im = dns.rdataset.ImmutableRdataset(fresh())
    for s in _all_slots(type(im)):
        v = getattr(im, s)
        ent.append(("setattr", "ImmutableRdataset", s, _raises(lambda: setattr(im, s, v)) and getattr(im, s) is v, ""))
        ent.append(("delattr", "ImmutableRdataset", s, _raises(lambda: delattr(im, s)) and hasattr(im, s), ""))
    ent.append(("field", "ImmutableRdataset", "items", isinstance(im.items, dns.immutable.Dict), type(im.items).__name__))
    for n in ("union", "intersection", "difference", "symmetric_difference", "copy", "__copy__"):
        try:
            res = getattr(im, n)(other()) if n not in ("copy", "__copy__") else getattr(im, n)()
            ent.append(("functional", "ImmutableRdataset", n, isinstance(res, dns.rdataset.ImmutableRdataset) and res is not im, ""))
        except Exception as e:
            ent.append(("functional", "ImmutableRdataset", n, False, repr(e)))
    # the source rdataset is not shared with the wrapper
    src = fresh()
    im2 = dns.rdataset.ImmutableRdataset(src)
    src.add(a3)
    ent.append(("isolation", "ImmutableRdataset", "copy of source dict", len(im2) == 2, ""))
    d = dns.immutable.Dict({1: 2})
    for n in ("__setitem__", "__delitem__", "pop", "popitem", "clear", "update", "setdefault"):
        ent.append(("mutator", "immutable.Dict", n, not hasattr(d, n), ""))
    ent.append(("setattr", "immutable.Dict", "_odict", _raises(lambda: setattr(d, "_odict", {})), ""))
    return ent


def probe():
    import dns.name

    ent = []
    ent += probe_class(dns.name.Name, "dns.name.Name", dns.name.from_text("Www.Example."))
    sp = specimens()
    for k in rdata_classes():
        ent += probe_class(k, f"{k.__module__}.{k.__qualname__}", sp.get(k))
    ent += probe_immutable_rdataset()
    return ent


def _lean_str(s):
    return '"' + s.replace("\\", "\\\\").replace('"', '\\"').replace("\n", " ") + '"'


def generate():
    ent = probe()
    L = ["/-! GENERATED by harness/extract_C07.py from the dnspython working tree. Do not edit. -/", "namespace ConstsC07",
         "/-- (kind, class, member, ok): the immutability / mutator surface, enumerated exhaustively from the code -/",
         "def surface : List (String × String × String × Bool) := ["]
    rows = [f"  ({_lean_str(k)}, {_lean_str(c)}, {_lean_str(m)}, {'true' if ok else 'false'})" for k, c, m, ok, _ in ent]
    L.append(",\n".join(rows))
    L.append("]")
    ncls = len({c for k, c, m, ok, _ in ent})
    nospec = len([1 for k, c, m, ok, _ in ent if k == "no-specimen"])
    L.append(f"def classesProbed : Nat := {ncls}")
    L.append(f"def classesWithoutSpecimen : Nat := {nospec}")
    L.append("end ConstsC07")
    return "\n".join(L) + "\n"


if __name__ == "__main__":
    for e in probe():
        if not e[3] or e[0] == "no-specimen" or e[1] == "Rdataset":
            print(e)
    print(len(probe()))

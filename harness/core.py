"""Shared machinery of the checks: PRNG, Lean build + axiom audit, model driver, differ,
known-findings classification, replay and evidence files.  See DESIGN.md §2.

Every check follows the same steps:
  A regenerate Generated/Consts.lean from /repo          (extract.write)
  B lake build Props.<id> Audit.<id> + dnsdriver, audit axioms   (lean_build)
  C correspondence: impl (in-process) vs model driver   (Ctx.corr / Ctx.flush)
  D direct oracle on the implementation                  (Ctx.fail)
  E search for a failing input when B or C broke         (module.search)
  F classify against KNOWN_FINDINGS.json, print VIOLATION / KNOWN-FINDING lines
  G write evidence/<id>.json
"""
from __future__ import annotations

import fcntl
import hashlib
import json
import os
import re
import subprocess
import sys
import time
import traceback

VERIF = os.path.dirname(os.path.dirname(os.path.abspath(__file__)))
LEAN = os.path.join(VERIF, "lean")
REPO = os.environ.get("VERIF_REPO", "/repo")
def driver_path(prop: str) -> str:
    return os.path.join(LEAN, ".lake", "build", "bin", f"driver{prop}")
ALLOWED_AXIOMS = {"propext", "Classical.choice", "Quot.sound"}
FORBIDDEN = re.compile(
    r"\b(sorry|admit|native_decide|bv_decide|implemented_by|unsafe)\b|^\s*axiom\s|maxHeartbeats\s+0\b",
    re.M,
)

if REPO not in sys.path:
    sys.path.insert(0, REPO)


# --------------------------------------------------------------------------------------------
# PRNG: one SplitMix64 state per check; every random choice derives from it.
# --------------------------------------------------------------------------------------------
class Rng:
    MASK = (1 << 64) - 1

    def __init__(self, seed: int):
        # scramble the seed (two SplitMix64 output rounds) so that neighbouring seeds give unrelated streams
        self.s = (seed ^ 0x5DEECE66D1234567) & self.MASK
        self.s = self.next() ^ ((seed * 0xD6E8FEB86659FD93) & self.MASK)
        self.next()

    def next(self) -> int:
        self.s = (self.s + 0x9E3779B97F4A7C15) & self.MASK
        z = self.s
        z = ((z ^ (z >> 30)) * 0xBF58476D1CE4E5B9) & self.MASK
        z = ((z ^ (z >> 27)) * 0x94D049BB133111EB) & self.MASK
        return z ^ (z >> 31)

    def below(self, n: int) -> int:
        return self.next() % n if n > 0 else 0

    def range(self, lo: int, hi: int) -> int:
        """inclusive"""
        return lo + self.below(hi - lo + 1)

    def chance(self, num: int, den: int) -> bool:
        return self.below(den) < num

    def choice(self, seq):
        return seq[self.below(len(seq))]

    def bytes(self, n: int, pool=None) -> bytes:
        if pool is None:
            return bytes(self.below(256) for _ in range(n))
        return bytes(self.choice(pool) for _ in range(n))

    def shuffle(self, xs):
        xs = list(xs)
        for i in range(len(xs) - 1, 0, -1):
            j = self.below(i + 1)
            xs[i], xs[j] = xs[j], xs[i]
        return xs

    def fork(self, tag: int) -> "Rng":
        return Rng(self.next() ^ (tag * 0x2545F4914F6CDD1D))


# --------------------------------------------------------------------------------------------
# protocol encodings
# --------------------------------------------------------------------------------------------
def hx(b: bytes) -> str:
    return b.hex() if len(b) else "-"


def unhx(s: str) -> bytes:
    return b"" if s == "-" else bytes.fromhex(s)


def enc_labels(labels) -> str:
    labels = list(labels)
    if not labels:
        return "@"
    return ",".join(hx(bytes(l)) for l in labels)


def enc_name(n) -> str:
    return enc_labels(n.labels)


def dec_labels(s: str):
    if s == "@":
        return []
    return [unhx(x) for x in s.split(",")]


# --------------------------------------------------------------------------------------------
# Lean build and audit
# --------------------------------------------------------------------------------------------
class BuildResult:
    def __init__(self):
        self.ok = False
        self.driver_ok = False
        self.theorems = []  # names of record
        self.axioms = {}  # theorem -> list of axioms
        self.bad = []  # (theorem-or-file, reason)
        self.log = ""
        self.wall = 0.0


def _strip_comments(src: str) -> str:
    # remove nested block comments and line comments
    out = []
    i = 0
    depth = 0
    n = len(src)
    while i < n:
        if src.startswith("/-", i):
            depth += 1
            i += 2
        elif depth and src.startswith("-/", i):
            depth -= 1
            i += 2
        elif depth:
            i += 1
        elif src.startswith("--", i):
            j = src.find("\n", i)
            i = n if j < 0 else j
        else:
            out.append(src[i])
            i += 1
    return "".join(out)


def theorems_of_record(prop: str):
    """theorem names declared in Props/<prop>.lean (inside `namespace <prop>`)."""
    path = os.path.join(LEAN, "Props", f"{prop}.lean")
    if not os.path.exists(path):
        return []
    src = _strip_comments(open(path).read())
    return [f"{prop}.{m}" for m in re.findall(r"^\s*theorem\s+([A-Za-z_][A-Za-z0-9_'.]*)", src, re.M)]


def _imports_closure(prop: str, root: str | None = None):
    """project-local modules transitively imported by Props/<prop>.lean (for the forbidden-token grep)."""
    seen = set()
    stack = [root or f"Props.{prop}"]
    while stack:
        m = stack.pop()
        if m in seen:
            continue
        path = os.path.join(LEAN, *m.split(".")) + ".lean"
        if not os.path.exists(path):
            continue
        seen.add(m)
        for imp in re.findall(r"^import\s+([A-Za-z0-9_.]+)", open(path).read(), re.M):
            stack.append(imp)
    return sorted(seen)


def write_audit(prop: str):
    thms = theorems_of_record(prop)
    path = os.path.join(LEAN, "Audit", f"{prop}.lean")
    os.makedirs(os.path.dirname(path), exist_ok=True)
    text = f"import Props.{prop}\n/-! GENERATED: axiom audit of every theorem of record of {prop}. -/\n"
    text += "".join(f"#print axioms {t}\n" for t in thms)
    old = open(path).read() if os.path.exists(path) else None
    if old != text:
        with open(path, "w") as f:
            f.write(text)
    return thms


def lean_build(prop: str, clean: bool = False, leanchecker: bool = False) -> BuildResult:
    import harness.extract as extract

    r = BuildResult()
    t0 = time.time()
    os.makedirs(os.path.join(LEAN, ".lake"), exist_ok=True)
    lock = open(os.path.join(LEAN, ".build.lock"), "w")
    fcntl.flock(lock, fcntl.LOCK_EX)
    try:
        # regenerate the constants/tables this property's proofs and driver import (each extractor under a deadline)
        needed = set()
        for m in _imports_closure(prop) + _imports_closure(prop, root=f"Driver.Main{prop}"):
            if m.startswith("Generated.") and m != "Generated.Consts":
                needed.add(m.split(".", 1)[1])
        gen_dir = os.path.join(LEAN, "Generated")
        missing = {os.path.basename(x)[8:-3] for x in __import__("glob").glob(os.path.join(VERIF, "harness", "extract_C*.py"))
                   if not os.path.exists(os.path.join(gen_dir, os.path.basename(x)[8:-3] + ".lean"))}
        try:
            for mod_name, problem in extract.write(only=needed | missing):
                if mod_name == "Generated.Consts" or mod_name.split(".", 1)[1] in needed:
                    r.bad.append((mod_name, problem))
        except BaseException as e:  # extraction itself broke: obligations cannot be rebuilt
            r.bad.append(("Generated.Consts", f"extraction failed: {e!r}"))
        r.theorems = write_audit(prop)
        env = dict(os.environ)
        p = subprocess.run(["lake", "build", f"driver{prop}"], cwd=LEAN, capture_output=True, text=True, env=env)
        r.driver_ok = p.returncode == 0 and os.path.exists(driver_path(prop))
        r.log += p.stdout[-4000:] + p.stderr[-2000:]
        if clean:
            # force re-elaboration of this property's proof modules
            for m in _imports_closure(prop) + [f"Audit.{prop}"]:
                if m.startswith(("Props.", "Proofs.", "Audit.")):
                    base = os.path.join(LEAN, ".lake", "build", "lib", "lean", *m.split("."))
                    for ext in (".olean", ".ilean", ".trace", ".olean.hash", ".ilean.hash"):
                        try:
                            os.remove(base + ext)
                        except OSError:
                            pass
        p = subprocess.run(
            ["lake", "build", f"Props.{prop}", f"Audit.{prop}"], cwd=LEAN, capture_output=True, text=True, env=env
        )
        out = p.stdout + p.stderr
        r.log += out[-8000:]
        if p.returncode != 0:
            # map first error to enclosing theorem
            m = re.search(r"error: ([A-Za-z0-9_/]+\.lean):(\d+):(\d+): (.*)", out)
            where = "build"
            if m:
                where = f"{m.group(1)}:{m.group(2)}"
                try:
                    lines = open(os.path.join(LEAN, m.group(1))).read().split("\n")[: int(m.group(2))]
                    for ln in reversed(lines):
                        mm = re.match(r"\s*(?:private\s+)?(?:theorem|lemma|def|example|instance)\s+(\S+)", ln)
                        if mm:
                            where += f" ({mm.group(1)})"
                            break
                except OSError:
                    pass
                r.bad.append((where, m.group(4)[:300]))
            else:
                r.bad.append((where, out[-500:]))
        # axiom audit, replayed by lake even for cached modules
        for m in re.finditer(r"'([^']+)' depends on axioms: \[([^\]]*)\]", out):
            r.axioms[m.group(1)] = [a.strip() for a in m.group(2).split(",") if a.strip()]
        for m in re.finditer(r"'([^']+)' does not depend on any axioms", out):
            r.axioms[m.group(1)] = []
        if p.returncode == 0:
            for t in r.theorems:
                if t not in r.axioms:
                    r.bad.append((t, "no axiom audit line"))
                elif not set(r.axioms[t]) <= ALLOWED_AXIOMS:
                    r.bad.append((t, f"axioms {r.axioms[t]}"))
        # forbidden tokens
        for mod in _imports_closure(prop):
            path = os.path.join(LEAN, *mod.split(".")) + ".lean"
            src = _strip_comments(open(path).read())
            mm = FORBIDDEN.search(src)
            if mm:
                r.bad.append((mod, f"forbidden token {mm.group(0).strip()!r}"))
        if leanchecker and p.returncode == 0:
            mods = [m for m in _imports_closure(prop) if m.startswith(("Props.", "Proofs."))]
            q = subprocess.run(["lake", "env", "leanchecker"] + mods, cwd=LEAN, capture_output=True, text=True)
            r.log += q.stdout[-2000:] + q.stderr[-2000:]
            if q.returncode != 0:
                r.bad.append(("leanchecker", (q.stdout + q.stderr)[-300:]))
        if not r.theorems:
            r.bad.append((f"Props.{prop}", "no theorem of record"))
        r.ok = not r.bad
    finally:
        fcntl.flock(lock, fcntl.LOCK_UN)
        lock.close()
        r.wall = time.time() - t0
    return r


def run_driver(prop, lines):
    """Run the property's compiled model driver over a batch of protocol lines."""
    data = ("\n".join(lines) + "\n").encode()
    p = subprocess.run([driver_path(prop)], input=data, capture_output=True, timeout=1800)
    if p.returncode != 0:
        raise RuntimeError(f"driver exit {p.returncode}: {p.stderr[-500:]!r}")
    out = p.stdout.decode().split("\n")
    if out and out[-1] == "":
        out.pop()
    if len(out) != len(lines):
        raise RuntimeError(f"driver returned {len(out)} lines for {len(lines)} ops")
    return out


# --------------------------------------------------------------------------------------------
# failures
# --------------------------------------------------------------------------------------------
class Failure:
    """A concrete input on which the *property itself* fails on the implementation."""

    def __init__(self, signature: str, what: str, replay: dict):
        self.signature = signature  # narrow class used to match KNOWN_FINDINGS
        self.what = what
        self.replay = replay  # self-contained JSON: must include 'kind' understood by module.replay


class Mismatch:
    def __init__(self, op: str, impl: str, model: str, case=None):
        self.op, self.impl, self.model, self.case = op, impl, model, case


def load_known():
    path = os.path.join(VERIF, "KNOWN_FINDINGS.json")
    if not os.path.exists(path):
        return {"findings": [], "fixed": []}
    return json.load(open(path))


class Stalled(BaseException):
    """raised by the watchdog when the correspondence run makes no progress (no case, oracle or driver batch) for
    VERIF_STALL seconds: some call into the implementation does not return"""


class Ctx:
    def __init__(self, prop: str, tier: str, seed: int):
        self.prop, self.tier, self.seed = prop, tier, seed
        self.tick = time.time()
        self.stalled = None
        self.rng = Rng(seed ^ (int(hashlib.sha256(prop.encode()).hexdigest()[:8], 16)))
        self.hist = {}
        self.distinct = set()
        self.evaluations = 0
        self.samples = []
        self.queue = []  # (op, impl, case)
        self.mismatches = []
        self.failures = []
        self.corr_count = 0
        self.build = None
        self.notes = []
        self.t0 = time.time()
        self.driver_ok = True
        self.model_only_skipped = 0
        self.extra = {}

    # scale factor for case counts
    def n(self, quick: int, thorough: int | None = None) -> int:
        if self.tier == "thorough":
            return thorough if thorough is not None else quick * 20
        return quick

    def count(self, key: str, k: int = 1):
        self.tick = time.time()
        self.hist[key] = self.hist.get(key, 0) + k

    # -- watchdog ------------------------------------------------------------------------------
    def watchdog_start(self):
        import signal

        limit = float(os.environ.get("VERIF_STALL", "1200" if self.tier == "thorough" else "600"))

        def on_alarm(signum, frame):
            if self.stalled is not None or time.time() - self.tick > limit:
                if self.stalled is None:
                    self.stalled = {"seconds_without_progress": round(time.time() - self.tick, 1),
                                    "where": "".join(traceback.format_stack(frame)[-12:])[-3000:],
                                    "last_case": getattr(self, "last_sample", None)}
                raise Stalled()

        # SIGALRM/ITIMER_REAL belong to the property harnesses (per-call hang guards); the watchdog is a thread
        # that pokes the main thread with SIGUSR2
        import threading

        self._old_alarm = signal.signal(signal.SIGUSR2, on_alarm)
        self._wd_stop = threading.Event()

        def poke():
            while not self._wd_stop.wait(10.0):
                if self.stalled is not None or time.time() - self.tick > limit:
                    try:
                        os.kill(os.getpid(), signal.SIGUSR2)
                    except OSError:
                        return

        self._wd = threading.Thread(target=poke, daemon=True)
        self._wd.start()

    def watchdog_stop(self):
        import signal

        if getattr(self, "_wd_stop", None) is not None:
            self._wd_stop.set()
            self._wd_stop = None
            signal.signal(signal.SIGUSR2, signal.SIG_IGN)

    def case(self, key, nontrivial: bool = True, sample=None):
        """register one generated case; `key` identifies it for distinctness"""
        if self.stalled is not None:
            raise Stalled()
        self.tick = time.time()
        self.evaluations += 1
        self.last_sample = sample if sample is not None else repr(key)[:2000]
        if nontrivial:
            self.distinct.add(hashlib.blake2b(repr(key).encode(), digest_size=8).digest())
        if sample is not None and len(self.samples) < 12 and (self.evaluations % 97 == 1 or len(self.samples) < 3):
            self.samples.append(sample)

    def corr(self, op: str, impl: str, case=None):
        self.tick = time.time()
        self.queue.append((op, impl, case))
        if len(self.queue) >= 50000:
            self.flush()

    def flush(self):
        if not self.queue:
            return
        q, self.queue = self.queue, []
        if not self.driver_ok:
            self.model_only_skipped += len(q)
            return
        self.tick = time.time()
        outs = run_driver(self.prop, [x[0] for x in q])
        self.tick = time.time()
        for (op, impl, case), model in zip(q, outs):
            self.corr_count += 1
            if impl != model:
                if len(self.mismatches) < 200:
                    self.mismatches.append(Mismatch(op, impl, model, case))
                self.count("corr.mismatch")

    def fail(self, signature: str, what: str, replay: dict):
        self.count("oracle.fail:" + signature)
        # keep a few witnesses per signature (the histogram keeps the totals)
        if self.hist["oracle.fail:" + signature] <= 3 and len(self.failures) < 2000:
            self.failures.append(Failure(signature, what, replay))

    def elapsed(self):
        return time.time() - self.t0


def err_name(e: BaseException) -> str:
    return type(e).__name__


def is_dns_exception(e: BaseException) -> bool:
    import dns.exception

    return isinstance(e, dns.exception.DNSException)


# --------------------------------------------------------------------------------------------
# main flow
# --------------------------------------------------------------------------------------------
def write_replay(prop: str, obj: dict) -> str:
    d = os.path.join(VERIF, "evidence", "replays")
    os.makedirs(d, exist_ok=True)
    blob = json.dumps(obj, sort_keys=True, indent=1, default=str)
    h = hashlib.sha256(blob.encode()).hexdigest()[:12]
    path = os.path.join(d, f"{prop}-{h}.json")
    with open(path, "w") as f:
        f.write(blob + "\n")
    return os.path.relpath(path, VERIF)


def run_check(mod, prop: str, tier: str, seed: int) -> int:
    ctx = Ctx(prop, tier, seed)
    known = load_known()
    known_sigs = {f["signature"]: f for f in known.get("findings", []) if f["property"] == prop}
    infra_error = None
    import glob as _glob
    for old in _glob.glob(os.path.join(VERIF, "evidence", "replays", f"{prop}-*.json")):
        try:
            os.remove(old)
        except OSError:
            pass

    # A + B
    try:
        ctx.build = lean_build(prop, clean=(tier == "thorough"), leanchecker=(tier == "thorough"))
    except Exception as e:  # infrastructure
        print(f"INFRA: lean build crashed: {e!r}")
        traceback.print_exc()
        return 2
    ctx.driver_ok = ctx.build.driver_ok
    # C + D
    corr_crash = None
    ctx.tick = time.time()
    ctx.watchdog_start()
    try:
        mod.run(ctx)
        ctx.flush()
    except Stalled:
        ctx.watchdog_stop()
        print(f"STALL: {json.dumps(ctx.stalled, default=str)[:1500]}")
        corr_crash = {"exception": "Stalled: a call into the implementation did not return (no progress for "
                                   f"{(ctx.stalled or {}).get('seconds_without_progress')} s)",
                      "traceback": (ctx.stalled or {}).get("where"), "last_case": (ctx.stalled or {}).get("last_case")}
    except Exception as e:
        traceback.print_exc()
        if isinstance(e, (OSError, MemoryError, subprocess.SubprocessError, TimeoutError)):
            infra_error = f"harness crashed: {e!r}"
        else:
            # the correspondence could not be completed: on the unchanged tree the harness runs to the end for
            # every seed, so an exception escaping here means the implementation now behaves in a way the
            # tie does not expect (a value of another type or size, an exception through an unguarded call)
            corr_crash = {"exception": repr(e)[:500], "traceback": traceback.format_exc()[-3000:],
                          "last_case": getattr(ctx, "last_sample", None)}
    finally:
        ctx.watchdog_stop()
    # E: search when a proof obligation or the correspondence broke and no failing input is known yet
    broken = (not ctx.build.ok) or bool(ctx.mismatches) or corr_crash is not None
    new_fail = [f for f in ctx.failures if f.signature not in known_sigs]
    if broken and not new_fail and infra_error is None and corr_crash is None and hasattr(mod, "search"):
        try:
            mod.search(ctx)
            ctx.flush()
        except Exception as e:
            infra_error = f"search crashed: {e!r}"
            traceback.print_exc()
        new_fail = [f for f in ctx.failures if f.signature not in known_sigs]

    # F: classify
    violations = 0
    seen_known = {}
    for f in ctx.failures:
        if f.signature in known_sigs:
            seen_known.setdefault(f.signature, f)
    for sig, f in sorted(seen_known.items()):
        print(f"KNOWN-FINDING: property={prop} {known_sigs[sig].get('what', f.what)} [{sig}]")
    by_sig = {}
    for f in new_fail:
        by_sig.setdefault(f.signature, f)
    for sig, f in sorted(by_sig.items()):
        rp = write_replay(prop, dict(f.replay, property=prop, what=f.what, signature=sig, kind_of_replay="impl-counterexample", seed=seed,
                                     command=f"./check {prop} --replay <this file>"))
        print(f"VIOLATION property={prop} replay={rp}")
        violations += 1
    if not by_sig:
        if corr_crash is not None:
            rp = write_replay(prop, {"property": prop, "kind_of_replay": "correspondence-crash", "kind": "correspondence-crash",
                                     **corr_crash, "seed": seed,
                                     "note": "the correspondence check harness/props/%s.py could not be completed against this tree: an exception escaped from the tie itself (see traceback); the model is no longer shown to describe this code. No failing input had been found when it stopped" % prop})
            print(f"VIOLATION property={prop} replay={rp} no-failing-input-found")
            violations += 1
        elif not ctx.build.ok:
            rp = write_replay(prop, {"property": prop, "kind_of_replay": "broken-obligation", "kind": "broken-obligation",
                                     "obligations": [list(b) for b in ctx.build.bad], "log_tail": ctx.build.log[-3000:],
                                     "seed": seed, "note": "a proof obligation of the model no longer checks against the constants/tables regenerated from /repo; the failing-input search on the implementation found no counterexample"})
            print(f"VIOLATION property={prop} replay={rp} no-failing-input-found")
            violations += 1
        elif ctx.mismatches:
            m = ctx.mismatches[0]
            rp = write_replay(prop, {"property": prop, "kind_of_replay": "correspondence-break", "kind": "correspondence-break",
                                     "op": m.op, "impl": m.impl, "model": m.model, "case": m.case,
                                     "more": [[x.op, x.impl, x.model] for x in ctx.mismatches[1:10]],
                                     "count": ctx.hist.get("corr.mismatch", 0), "seed": seed,
                                     "note": "model and implementation disagree on this operation; the theorems no longer speak about this code. The failing-input search on the implementation found no counterexample"})
            print(f"VIOLATION property={prop} replay={rp} no-failing-input-found")
            violations += 1

    # G: evidence
    wall = time.time() - ctx.t0
    b = ctx.build
    ev = {
        "property_id": prop,
        "tier": tier,
        "seed": seed,
        "level": "proof",
        "coverage": {
            "obligations": max(1, len(b.theorems)),
            "discharged": (len([t for t in b.theorems if t in b.axioms and set(b.axioms[t]) <= ALLOWED_AXIOMS])
                           if not any(x[0] != "leanchecker" for x in b.bad) else 0),
            "checker_cmd": f"cd lean && lake build Props.{prop} Audit.{prop}" + (" && lake env leanchecker <modules>" if tier == "thorough" else ""),
            "trusted_base": getattr(mod, "TRUSTED_BASE", []) + [
                "Lean 4.33.0 kernel; axioms allowed: propext, Classical.choice, Quot.sound (audited with #print axioms on every theorem of record on every run)",
                "statements in lean/Props/%s.lean" % prop,
                "correspondence check harness/props/%s.py + lean/Driver (differential, generator-bounded)" % prop,
                "harness/extract.py (constants/tables regenerated from /repo on every run)",
            ],
            "theorems": b.theorems,
            "axioms": b.axioms,
            "build_ok": b.ok,
            "build_problems": [list(x) for x in b.bad],
            "build_wall_s": round(b.wall, 2),
            "evaluations": ctx.evaluations,
            "distinct_nontrivial": len(ctx.distinct),
            "rule": getattr(mod, "RULE", ""),
            "samples": ctx.samples[:12] or ["(no generated cases)"],
            "traces_validated_against_impl": ctx.corr_count,
            "correspondence_mismatches": ctx.hist.get("corr.mismatch", 0),
            "mismatch_samples": [[m.op[:400], m.impl[:200], m.model[:200]] for m in ctx.mismatches[:8]],
            "oracle_failures_known": len(seen_known),
            "oracle_failures_new": len(by_sig),
            "histogram": dict(sorted(ctx.hist.items())),
            **ctx.extra,
        },
        "assumptions": getattr(mod, "ASSUMPTIONS", []) + ctx.notes,
        "wall_s": round(wall, 2),
        "violations": violations,
    }
    # evidence/<id>.json describes runs against /repo itself; a run pointed at another checkout
    # (VERIF_REPO=<scratch worktree>, used to try seeded changes) records under evidence/other/ instead
    evdir = os.path.join(VERIF, "evidence")
    if os.path.realpath(REPO) != os.path.realpath("/repo"):
        evdir = os.path.join(evdir, "other")
        ev["repo"] = REPO
    os.makedirs(evdir, exist_ok=True)
    with open(os.path.join(evdir, f"{prop}.json"), "w") as f:
        json.dump(ev, f, indent=1, default=str)
        f.write("\n")
    print(
        f"{prop} tier={tier} seed={seed}: theorems={len(b.theorems)} build_ok={b.ok} corr={ctx.corr_count} "
        f"mismatch={ctx.hist.get('corr.mismatch', 0)} cases={ctx.evaluations} distinct={len(ctx.distinct)} "
        f"known={len(seen_known)} violations={violations} wall={wall:.1f}s"
    )
    if infra_error:
        print("INFRA:", infra_error)
        return 2
    return 1 if violations else 0

"""CLI of the checks.  See DESIGN.md §2."""
import argparse
import importlib
import json
import os
import subprocess
import sys

from harness import core


def setup() -> int:
    import harness.extract as extract

    extract.write()
    for p in sorted(os.listdir(os.path.join(core.LEAN, "Props"))):
        if p.endswith(".lean"):
            core.write_audit(p[:-5])
    props = sorted(p[:-5] for p in os.listdir(os.path.join(core.LEAN, "Props")) if p.endswith(".lean"))
    targets = ["DnsVerif"] + [f"driver{p}" for p in props]
    r = subprocess.run(["lake", "build"] + targets, cwd=core.LEAN)
    if r.returncode != 0:
        # a failing proof module must not prevent the drivers and the other properties from building;
        # each check rebuilds what it needs and reports a broken obligation itself
        print("setup: full build reported failures; building per property")
        for p in props:
            subprocess.run(["lake", "build", f"Props.{p}", f"driver{p}"], cwd=core.LEAN)
    return 0


def main() -> int:
    ap = argparse.ArgumentParser()
    ap.add_argument("prop", nargs="?")
    ap.add_argument("--setup", action="store_true")
    ap.add_argument("--tier", default=os.environ.get("VERIF_TIER", "quick"), choices=["quick", "thorough"])
    ap.add_argument("--seed", type=int, default=int(os.environ.get("VERIF_SEED", "1") or 1))
    ap.add_argument("--replay")
    a = ap.parse_args()
    if a.setup:
        return setup()
    if not a.prop:
        ap.error("property id required")
    try:
        mod = importlib.import_module(f"harness.props.{a.prop}")
    except Exception as e:  # the harness itself (or the dnspython it imports) does not load: no verdict
        import traceback

        traceback.print_exc()
        print(f"INFRA: cannot load harness.props.{a.prop}: {e!r}")
        return 2
    if a.replay:
        obj = json.load(open(a.replay))
        ctx = core.Ctx(a.prop, a.tier, a.seed)
        if obj.get("kind_of_replay") in ("broken-obligation", "correspondence-break") and obj.get("kind") in (
            "broken-obligation",
            "correspondence-break",
        ):
            # re-run the deciding step: rebuild and re-run the recorded operation against the model
            b = core.lean_build(a.prop)
            print("build_ok", b.ok, b.bad)
            if obj.get("op") and hasattr(mod, "impl_of_op"):
                impl = mod.impl_of_op(obj["op"])
                model = core.run_driver(a.prop, [obj["op"]])[0] if b.driver_ok else "?"
                print("op   :", obj["op"])
                print("impl :", impl)
                print("model:", model)
                return 0 if (b.ok and impl == model) else 1
            return 0 if b.ok else 1
        f = mod.replay(ctx, obj)
        if f:
            print(f"VIOLATION property={a.prop} replay={a.replay}")
            print("still fails:", f)
            return 1
        print("replay: no longer fails")
        return 0
    return core.run_check(mod, a.prop, a.tier, a.seed)


if __name__ == "__main__":
    sys.exit(main())

"""Virtual time for the resolver checks (C16; usable by C17/C18).

* `VClock`  — an integer-millisecond clock.  `time()` returns an exact `fractions.Fraction` of seconds, so the
  library's own arithmetic (`now - start`, `duration >= lifetime`, `time.time() + ttl`) is exact and a run is
  reproducible to the millisecond; `sleep(s)` advances the clock instead of blocking and reports the sleep.
* `patched(clock, *modules)` — context manager rebinding the module global `time` of the given dnspython modules
  (e.g. `dns.resolver`, `dns.asyncresolver`) to the clock; restored on exit.  Nothing under /repo is edited.
* `VirtualTimeLoop` — an `asyncio.SelectorEventLoop` whose `time()` is the virtual clock; when nothing is ready
  it jumps the clock to the earliest timer instead of blocking in `select`, so `asyncio.sleep` costs nothing
  and the order of wake-ups is exactly the order of deadlines.  No sockets are used by the checks.
"""
from __future__ import annotations

import asyncio
import contextlib
from fractions import Fraction


def to_ms(x) -> int:
    """seconds (int, float or Fraction) -> nearest integer millisecond"""
    if isinstance(x, Fraction):
        return int(round(x * 1000))
    return int(round(float(x) * 1000))


class VClock:
    def __init__(self, ms: int = 0):
        self.ms = ms
        self.on_sleep = None  # callback(ms) for the trace

    # the subset of the `time` module the anchored code uses
    def time(self):
        return Fraction(self.ms, 1000)

    def monotonic(self):
        return Fraction(self.ms, 1000)

    def sleep(self, seconds):
        ms = to_ms(seconds)
        if self.on_sleep is not None:
            self.on_sleep(ms)
        self.ms += max(0, ms)

    def advance(self, ms: int):
        self.ms += ms


@contextlib.contextmanager
def patched(clock: VClock, *modules):
    saved = [(m, m.time) for m in modules]
    try:
        for m in modules:
            m.time = clock
        yield clock
    finally:
        for m, t in saved:
            m.time = t


class Deadlock(RuntimeError):
    pass


class VirtualTimeLoop(asyncio.SelectorEventLoop):
    """Event loop on a `VClock`: never blocks, jumps to the next deadline.

    `time()` is measured from an epoch (`rebase()` sets it to the clock's current value; the checks rebase before every
    top-level call), so that deadlines stay exact binary floats of a few seconds even when the virtual clock itself stands
    beyond 2^32 seconds: with absolute float times a deadline computed as `time() + delay` can fall between two
    representable clock readings and never be reached."""

    def __init__(self, clock: VClock | None = None):
        super().__init__()
        self.vclock = clock or VClock()
        self.epoch_ms = 0

    def rebase(self):
        self.epoch_ms = self.vclock.ms

    def time(self):
        return (self.vclock.ms - self.epoch_ms) / 1000.0

    def _run_once(self):
        if not self._ready:
            whens = [h._when for h in self._scheduled if not h._cancelled]
            if whens:
                target = self.epoch_ms + int(round(min(whens) * 1000))
                if target > self.vclock.ms:
                    self.vclock.ms = target
            elif not self._stopping:
                # nothing runnable and no timer: a real loop would block forever
                raise Deadlock("virtual-time loop: no ready callback and no timer")
        super()._run_once()


def run_virtual(loop: VirtualTimeLoop, coro):
    """run a coroutine to completion on the virtual-time loop"""
    return loop.run_until_complete(coro)

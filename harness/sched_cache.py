"""Deterministic scheduler for the C17 concurrency check (resolver caches).

Real threads, exactly one runnable at a time.  Control changes hands only at *yield points*:
  - `Lock.acquire` (before the attempt), a blocked acquire, `Lock.release` (after the release),
  - every line executed inside a traced code object (sys.settrace in each worker; the traced set is the
    methods of the cache classes, collected from the imported module at run time),
  - thread exit.
At a yield point a policy picks the next thread: `RandomPolicy` (seeded, so a schedule replays from its seed) or
`ScriptPolicy` (an explicit list of thread ids, used for corpus witnesses).  Every decision is appended to
`Sched.trace`, so any run can be replayed by `ScriptPolicy(trace)`.

`ThreadingShim` stands for the `threading` module seen by `dns.resolver`; its `Lock` is `SLock`.

Access monitor: `monitored(cls, attrs, sched)` builds a subclass whose attribute reads/writes of `attrs` call
`Sched.check_access`, which records a problem when the calling thread does not own the cache lock.

This file is independent of harness/sched.py (C12).
"""
import sys
import threading as _rt


class SchedAbort(BaseException):
    pass


class ST:
    """scheduler-side record of one worker thread"""

    def __init__(self, ident, fn):
        self.id = ident
        self.fn = fn
        self.sem = _rt.Semaphore(0)
        self.done = False
        self.blocked_on = None
        self.error = None
        self.cur = None  # the history entry of the operation in progress
        self.thread = None

    def __repr__(self):
        return f"T{self.id}"


class RandomPolicy:
    def __init__(self, rng, stay_num=3, stay_den=4):
        self.rng = rng
        self.stay_num, self.stay_den = stay_num, stay_den

    def next(self, sched, runnable, me, kind):
        if kind == "line" and me in runnable and self.rng.chance(self.stay_num, self.stay_den):
            return me
        return runnable[self.rng.below(len(runnable))]


class ScriptPolicy:
    """follow an explicit decision list; afterwards keep the current thread, else the lowest id"""

    def __init__(self, script):
        self.script = list(script)
        self.i = 0
        self.diverged = False

    def next(self, sched, runnable, me, kind):
        if self.i < len(self.script):
            want = self.script[self.i]
            self.i += 1
            for t in runnable:
                if t.id == want:
                    return t
            self.diverged = True
        if me in runnable:
            return me
        return runnable[0]


class Sched:
    def __init__(self, policy, max_steps=20000):
        self.policy = policy
        self.threads = []
        self.cur = None
        self.trace = []
        self.problems = []  # (kind, detail)
        self.history = []  # entries in linearisation order (lock acquisition)
        self.main_sem = _rt.Semaphore(0)
        self.abort = False
        self.deadlock = False
        self.livelock = False
        self.steps = 0
        self.max_steps = max_steps
        self.lock = None  # the cache lock (last SLock created)
        self.monitoring = False
        self.traced = set()
        self.on_release = None  # callable(thread) run by the releasing thread while it still owns the lock
        self.tids = {}

    # ---- threads -------------------------------------------------------------------------------
    def spawn(self, fn):
        t = ST(len(self.threads), fn)
        self.threads.append(t)
        return t

    def current(self):
        return self.tids.get(_rt.get_ident())

    def _boot(self, t):
        self.tids[_rt.get_ident()] = t
        t.sem.acquire()
        if self.abort:
            t.done = True
            return
        sys.settrace(self._gtrace)
        try:
            t.fn(t)
        except SchedAbort:
            pass
        except BaseException as e:  # noqa: BLE001 - reported by the caller
            if type(e).__name__ == "Stalled":  # harness.core's watchdog: never swallowed
                raise
            t.error = e
        finally:
            sys.settrace(None)
            t.done = True
            try:
                self._leave(t)
            except SchedAbort:
                pass

    def _leave(self, me):
        """thread exit: hand over, or finish the run"""
        if self.abort:
            return
        runnable = [t for t in self.threads if not t.done and t.blocked_on is None]
        if not runnable:
            if any(not t.done for t in self.threads):
                self.deadlock = True
                self._abort_all()
            self.main_sem.release()
            return
        nxt = self.policy.next(self, runnable, me, "exit")
        self.trace.append(nxt.id)
        self.cur = nxt
        nxt.sem.release()

    def _abort_all(self):
        self.abort = True
        for t in self.threads:
            t.sem.release()

    def yield_point(self, kind):
        me = self.current()
        if me is None:
            return
        if self.abort:
            raise SchedAbort()
        self.steps += 1
        if self.steps > self.max_steps:
            self.livelock = True
            self._abort_all()
            self.main_sem.release()
            raise SchedAbort()
        runnable = [t for t in self.threads if not t.done and t.blocked_on is None]
        if not runnable:
            self.deadlock = True
            self._abort_all()
            self.main_sem.release()
            raise SchedAbort()
        nxt = self.policy.next(self, runnable, me, kind)
        self.trace.append(nxt.id)
        if nxt is me:
            return
        self.cur = nxt
        nxt.sem.release()
        me.sem.acquire()
        if self.abort:
            raise SchedAbort()

    def run(self, timeout=60.0):
        for t in self.threads:
            t.thread = _rt.Thread(target=self._boot, args=(t,), daemon=True)
            t.thread.start()
        if not self.threads:
            return True
        first = self.policy.next(self, list(self.threads), None, "start")
        self.trace.append(first.id)
        self.cur = first
        first.sem.release()
        ok = self.main_sem.acquire(timeout=timeout)
        if not ok:
            self.livelock = True
            self._abort_all()
        for t in self.threads:
            t.thread.join(timeout=2.0)
        return ok and not self.deadlock and not self.livelock

    # ---- line-level preemption -----------------------------------------------------------------
    def trace_code_of(self, *classes):
        for cls in classes:
            for v in vars(cls).values():
                f = getattr(v, "__func__", v)
                code = getattr(f, "__code__", None)
                if code is not None:
                    self.traced.add(code)

    def _gtrace(self, frame, event, arg):
        if event == "call" and frame.f_code in self.traced:
            return self._ltrace
        return None

    def _ltrace(self, frame, event, arg):
        if event == "line":
            self.yield_point("line")
        return self._ltrace

    # ---- monitor ---------------------------------------------------------------------------------
    def check_access(self, obj, name, mode):
        if not self.monitoring:
            return
        me = self.current()
        if me is None:
            return
        if me.cur is not None and me.cur.get("pos") is None:
            # an operation that touches shared state without having acquired the lock: this access is the
            # only linearisation point it has
            self.place(me)
        if self.lock is None or self.lock.owner is not me:
            try:
                fn = sys._getframe(2).f_code.co_name
            except ValueError:
                fn = "?"
            self.problems.append(("unlocked-access", f"{type(obj).__name__}.{name} {mode} in {fn}"))

    def place(self, me):
        if me.cur is not None and me.cur.get("pos") is None:
            me.cur["pos"] = len(self.history)
            me.cur["holder"] = None if (self.lock is None or self.lock.owner in (None, me)) else self.lock.owner.id
            self.history.append(me.cur)


class SLock:
    def __init__(self, sched):
        self.sched = sched
        self.owner = None
        sched.lock = self

    def acquire(self, blocking=True, timeout=-1):
        s = self.sched
        me = s.current()
        if me is None:
            if self.owner is not None:
                raise RuntimeError("cache lock taken outside the scheduler while owned")
            self.owner = "main"
            return True
        while True:
            s.yield_point("acquire")
            if self.owner is None:
                self.owner = me
                s.place(me)
                return True
            if self.owner is me:
                s.problems.append(("self-deadlock", "lock re-acquired by its owner"))
            me.blocked_on = self
            s.yield_point("blocked")

    def release(self):
        s = self.sched
        me = s.current()
        if me is None:
            self.owner = None
            return
        if self.owner is not me:
            s.problems.append(("release-by-non-owner", repr(me)))
        if s.on_release is not None:
            s.on_release(me)
        self.owner = None
        for t in s.threads:
            if t.blocked_on is self:
                t.blocked_on = None
        s.yield_point("release")

    def locked(self):
        return self.owner is not None

    def __enter__(self):
        self.acquire()
        return self

    def __exit__(self, *a):
        self.release()
        return False


class ThreadingShim:
    """what `dns.resolver` sees as `threading` while a scheduled cache is built"""

    def __init__(self, sched):
        self._sched = sched

    def Lock(self):
        return SLock(self._sched)

    def __getattr__(self, name):
        return getattr(_rt, name)


def monitored(cls, attrs, sched):
    attrs = frozenset(attrs)

    class M(cls):
        def __getattribute__(self, name):
            if name in attrs:
                sched.check_access(self, name, "read")
            return super().__getattribute__(name)

        def __setattr__(self, name, value):
            if name in attrs:
                sched.check_access(self, name, "write")
            super().__setattr__(name, value)

    M.__name__ = cls.__name__
    M.__qualname__ = cls.__qualname__
    return M


def raw(obj, name):
    """read an attribute of a monitored object without going through the monitor"""
    return object.__getattribute__(obj, name)

"""Regenerate MANIFEST.json from the LEVEL metadata of harness/props/Cxx.py (run by hand, result committed)."""
import importlib
import json
import os
import sys

HERE = os.path.dirname(os.path.abspath(__file__))
VERIF = os.path.dirname(HERE)
sys.path.insert(0, VERIF)

BASELINE = "cd /repo && /venv/bin/python -m pytest -ra -q -p no:cacheprovider --timeout=900 --continue-on-collection-errors"


def main():
    props = [json.loads(l)["id"] for l in open(os.path.join(VERIF, "properties.jsonl"))]
    checks, na = [], []
    ready = set(open(os.path.join(HERE, "READY")).read().split())
    for p in props:
        if p not in ready:
            na.append({"property_id": p, "reason": "check under construction (design in DESIGN.md §7); not claimed until it passes on the unchanged tree with several seeds and its mutant acceptance"})
            continue
        path = os.path.join(HERE, "props", p + ".py")
        lean = os.path.join(VERIF, "lean", "Props", p + ".lean")
        if not (os.path.exists(path) and os.path.exists(lean)):
            na.append({"property_id": p, "reason": "check not built yet (planned in DESIGN.md §7); nothing is claimed for it"})
            continue
        mod = importlib.import_module("harness.props." + p)
        L = getattr(mod, "LEVEL")
        checks.append({
            "property_id": p,
            "quick_cmd": f"./check {p} --tier quick",
            "thorough_cmd": f"./check {p} --tier thorough",
            "evidence_file": f"evidence/{p}.json",
            "replay_cmd_template": f"./check {p} --replay {{path}}",
            "engine": "lean4-proof+correspondence",
            "level_claimed": {"category": "proof", "text": L["text"], "design_ref": L.get("design_ref", f"DESIGN.md §7 {p}")},
            "level_note": L["note"],
            "technique": L["technique"],
        })
    m = {
        "version": 1,
        "setup_cmd": "./check --setup",
        "hooks": {
            "guard": "DNSPYTHON_VERIF",
            "enable": "no source hooks: the harness imports /repo's working tree in-process and substitutes collaborators through public parameters or by rebinding module globals at run time (see DESIGN.md §3)",
            "baseline_off_cmd": BASELINE,
            "source_commits": [],
            "add_only": True,
        },
        "engines": [{
            "name": "lean4-proof+correspondence",
            "path": "lean/ (models, proofs, driver) + harness/ (correspondence check, oracles)",
            "serves_properties": [c["property_id"] for c in checks],
            "kind_free_text": "Lean 4 theorems about hand-written executable models of the dnspython code; a differential correspondence check (compiled model driver vs the implementation imported from /repo) plus constants regenerated from /repo on every run tie the models to the code; a direct oracle on the implementation supplies failing inputs",
        }],
        "checks": checks,
        "not_applicable": na,
        "notes": "Every check rebuilds the Lean obligations against constants regenerated from /repo's working tree, audits axioms, runs the correspondence check and the direct oracle, and classifies failures against KNOWN_FINDINGS.json. Exit 0 = held; 1 = VIOLATION line; 2 = infrastructure failure.",
    }
    with open(os.path.join(VERIF, "MANIFEST.json"), "w") as f:
        json.dump(m, f, indent=1)
        f.write("\n")
    print("checks:", [c["property_id"] for c in checks], "n/a:", [x["property_id"] for x in na])


if __name__ == "__main__":
    main()

"""Regenerate lean/Generated/C15.lean: the behavioural canonicalisation table of every implemented
(class, type) pair of the dnspython working tree.

For each implemented rdata class one specimen with mixed-case embedded names is built from text
(`SPECIMENS`), and for each embedded-name field (in wire order) three behaviours are *observed*:

  lowered     `to_digestable()` emits the name with its ASCII letters lower-cased
  compressed  `to_wire(file, compress)` with a table primed with the name emits a pointer for it
  anomaly     the canonical form contains neither the lower-cased nor the verbatim uncompressed name
              (it was compressed, truncated, or otherwise altered)

Types that are implemented but have no specimen here are listed in `unprobed`: the Lean theorem
`canon_table_complete` then fails, so a type added to dnspython without being looked at is a reported gap.
The Lean side never trusts the table: `canon_table_is_rfc` compares it (by `decide`) with the RFC 4034 §6.2
list (minus NSEC, RFC 6840 §5.1) written independently in lean/Props/C15.lean.
"""
import io
import os
import sys

REPO = os.environ.get("VERIF_REPO", "/repo")
if REPO not in sys.path:
    sys.path.insert(0, REPO)

H32 = "00112233445566778899aabbccddeeff00112233445566778899aabbccddeeff"
H48 = H32 + "00112233445566778899aabbccddeeff"
HIPKEY = "AwEAAbdxyhNuSutc5EMzxTs9LBPCIkOFH8cIvM4p9+LrV4e19WzK00+CI6zBCQTdtWsuxKbWIy87UOoJTwkUs7lBu+Upr1gsNrut79ryra+bSRGQb1slImA8YVJyuIDsj7kwzG7jnERNqnWxZ48AWkskmdHaVDP4BcelrTI3rMXdXF5D"

# text templates per type mnemonic; `{n}` is replaced by a domain name.  Several variants per type where the
# layout has variants.  ("CH", "A") is the only class-specific implementation outside IN.
SPECIMENS = {
    "A": ["192.0.2.1"],
    "NS": ["{n}"],
    "CNAME": ["{n}"],
    "SOA": ["{n} {n} 1 7200 900 1209600 86400"],
    "WKS": ["192.0.2.1 6 25 80"],
    "PTR": ["{n}"],
    "HINFO": ['"Cpu" "Os"'],
    "MX": ["10 {n}"],
    "TXT": ['"Hello" "World"'],
    "RP": ["{n} {n}"],
    "AFSDB": ["1 {n}"],
    "X25": ['"311061700956"'],
    "ISDN": ['"150862028003217" "004"', '"150862028003217"'],
    "RT": ["10 {n}"],
    "NSAP": ["0x47.0005.80.005a00.0000.0001.e133.ffffff000161.00"],
    "NSAP-PTR": ["{n}"],
    "SIG": ["A 5 2 300 20300101000000 20200101000000 12345 {n} AAAA"],
    "KEY": ["256 3 8 AwEAAQ=="],
    "PX": ["10 {n} {n}"],
    "GPOS": ["-22.6882 116.8652 250.0"],
    "AAAA": ["2001:db8::1"],
    "LOC": ["51 30 12.748 N 0 7 39.612 W 0.00m"],
    "SRV": ["1 2 3 {n}"],
    "NAPTR": ['100 10 "u" "sip+E2U" "!^.*$!sip:x@y!" {n}'],
    "KX": ["10 {n}"],
    "CERT": ["PKIX 1 8 AAAA"],
    "DNAME": ["{n}"],
    "APL": ["1:192.0.2.0/24 !2:2001:db8::/32"],
    "DS": ["12345 8 2 " + H32],
    "SSHFP": ["1 1 00112233445566778899aabbccddeeff00112233"],
    "IPSECKEY": ["10 3 2 {n} AQNRU3mG7TVTO2BkR47usntb102uFJtugbo6BSGvgqt4AQ==", "10 0 2 . AQNRU3mG7TVTO2BkR47usntb102uFJtugbo6BSGvgqt4AQ=="],
    "RRSIG": ["A 8 2 300 20300101000000 20200101000000 12345 {n} AAAA", "NSEC 13 3 60 20300101000000 20200101000000 1 {n} AAAABBBB"],
    "NSEC": ["{n} A MX RRSIG NSEC TYPE1234"],
    "DNSKEY": ["257 3 8 AwEAAQ=="],
    "DHCID": ["AAIBY2/AuCccgoJbsaxcQc9TUapptP69lOjxfNuVAA2kjEA="],
    "NSEC3": ["1 0 10 AABB 2t7b4g4vsa5smi47k61mv5bv1a22bojr A RRSIG"],
    "NSEC3PARAM": ["1 0 10 AABB"],
    "TLSA": ["3 1 1 " + H32],
    "SMIMEA": ["3 1 1 " + H32],
    "HIP": ["2 200100107B1A74DF365639CC39F1D578 " + HIPKEY + " {n} {n}", "2 200100107B1A74DF365639CC39F1D578 " + HIPKEY],
    "NINFO": ['"x" "Y"'],
    "CDS": ["12345 8 2 " + H32],
    "CDNSKEY": ["257 3 8 AwEAAQ=="],
    "OPENPGPKEY": ["AAAA"],
    "CSYNC": ["66 3 A NS AAAA"],
    "ZONEMD": ["2018031500 1 1 " + H48],
    "SVCB": ["1 {n} alpn=h2 port=443", "0 {n}"],
    "HTTPS": ["1 {n} port=443"],
    "DSYNC": ["CDS NOTIFY 5359 {n}"],
    "HHIT": ["AAAA"],
    "BRID": ["AAAA"],
    "SPF": ['"v=spf1 -all"'],
    "NID": ["10 0014:4fff:ff20:ee64"],
    "L32": ["10 10.1.2.0"],
    "L64": ["10 2001:0DB8:1140:1000"],
    "LP": ["10 {n}"],
    "EUI48": ["00-00-5e-00-53-2a"],
    "EUI64": ["00-00-5e-ef-10-00-00-2a"],
    "TKEY": ["{n} 1594203795 1594203795 3 0 S0VZS0VZS0VZ T1RIRVI="],
    "TSIG": ["{n} 1594203795 300 4 AAECAw== 4660 NOERROR 0"],
    "URI": ['10 1 "http://X.example/"'],
    "CAA": ['0 issue "Ca.example"'],
    "AVC": ['"x"'],
    "AMTRELAY": ["10 0 3 {n}", "10 1 0 ."],
    "RESINFO": ["qnamemin exterr=15,16,17"],
    "WALLET": ['"eth" "0xAbC"'],
    "DLV": ["12345 8 2 " + H32],
}
SPECIMENS_CH = {"A": ["{n} 755"]}
# types with no text form: built from wire
WIRE_SPECIMENS = {"OPT": [bytes.fromhex("fde900026162")]}

PROBE_NAMES = ["Aa0.Ex-ZeRo.TeSt.", "Bb1.Ex-OnE.TeSt.", "Cc2.Ex-TwO.TeSt.", "Dd3.Ex-ThRee.TeSt."]


def specimen_texts(rdclass: int, rdtype: int):
    """(kind, payload) list for an implemented (class, type); [] if there is no specimen"""
    import dns.rdataclass
    import dns.rdatatype

    t = dns.rdatatype.to_text(rdtype)
    if rdclass == dns.rdataclass.CH and t in SPECIMENS_CH:
        return [("text", x) for x in SPECIMENS_CH[t]]
    if t in WIRE_SPECIMENS:
        return [("wire", x) for x in WIRE_SPECIMENS[t]]
    return [("text", x) for x in SPECIMENS.get(t, [])]


def build(rdclass: int, rdtype: int, kind: str, payload, names):
    """instantiate a specimen, substituting `names` (text) for the `{n}` placeholders in order"""
    import dns.rdata

    if kind == "wire":
        return dns.rdata.from_wire(rdclass, rdtype, payload, 0, len(payload))
    parts = payload.split("{n}")
    text = parts[0]
    for i, p in enumerate(parts[1:]):
        text += names[i] + p
    return dns.rdata.from_text(rdclass, rdtype, text, origin=None, relativize=False)


def implemented_pairs():
    """canonical (class, type) of every non-generic rdata class: the class is the one of the implementing
    module (dns.rdtypes.IN.*, .CH.*, .ANY.* = class-independent), so the result does not depend on which
    (class, type) lookups happened to be cached in `_rdata_classes` earlier in the process"""
    import dns.rdata
    import dns.rdataclass

    dns.rdata.load_all_types(disable_dynamic_load=False)
    out = set()
    for (c, t), cls in list(dns.rdata._rdata_classes.items()):
        if cls is None or cls is dns.rdata.GenericRdata:
            continue
        parts = cls.__module__.split(".")
        modclass = parts[2] if len(parts) >= 4 and parts[:2] == ["dns", "rdtypes"] else None
        if modclass is None:
            out.add((int(c), int(t)))  # registered from outside dns.rdtypes: keep as registered
        else:
            out.add((int(dns.rdataclass.from_text(modclass)), int(t)))
    return sorted(out)


def probe(rdclass: int, rdtype: int):
    """rows (slot, lowered, compressed, anomaly) observed on the specimens of one implemented pair"""
    import dns.name
    import dns.rdataclass

    inst_class = rdclass if rdclass != dns.rdataclass.ANY else dns.rdataclass.IN
    rows = {}
    specs = specimen_texts(inst_class, rdtype)
    for kind, payload in specs:
        rd = build(inst_class, rdtype, kind, payload, PROBE_NAMES)
        plain = rd.to_wire()
        canon = rd.to_digestable()
        # embedded names in wire order
        found = []
        for nt in PROBE_NAMES:
            n = dns.name.from_text(nt)
            w = n.to_wire()
            at = plain.find(w)
            if at >= 0:
                found.append((at, n))
        found.sort(key=lambda x: x[0])
        for slot, (at, n) in enumerate(found):
            w = n.to_wire()
            lw = n.canonicalize().to_wire()
            lowered = lw in canon and w not in canon
            verbatim = w in canon
            anomaly = not (lowered or verbatim)
            # compression probe: the name itself already sits at offset 0 of the message
            f = io.BytesIO()
            f.write(w)
            table = {}
            n.to_wire(io.BytesIO(), table)  # fills suffix offsets 0.. relative to the name start
            rd.to_wire(f, table, None)
            out = f.getvalue()[len(w):]
            compressed = (w not in out)
            key = slot
            old = rows.get(key)
            row = (lowered, compressed, anomaly)
            if old is not None and old != row:
                row = (old[0] or row[0], old[1] or row[1], True)  # variants disagree: flag it
            rows[key] = row
    return bool(specs), [(s,) + rows[s] for s in sorted(rows)]


def generate() -> str:
    import dns.dnssectypes
    import dns.rdatatype

    pairs = implemented_pairs()
    L = []
    L.append("/-! GENERATED by harness/extract_C15.py from the dnspython working tree. Do not edit. -/")
    L.append("namespace ConstsC15")
    L.append("/-- (class, type, slot, lowered, compressed, anomaly) for every embedded-name field of every implemented type -/")
    rows = []
    unprobed = []
    for c, t in pairs:
        try:
            ok, r = probe(c, t)
        except Exception:  # a specimen that no longer builds is a gap, not silence
            ok, r = False, []
        if not ok:
            unprobed.append((c, t))
        for slot, lo, co, an in r:
            rows.append(f"({c}, {t}, {slot}, {str(lo).lower()}, {str(co).lower()}, {str(an).lower()})")
    L.append("def canonTable : List (Nat × Nat × Nat × Bool × Bool × Bool) := [")
    L.append("  " + ",\n  ".join(rows))
    L.append("]")
    L.append("def implemented : List (Nat × Nat) := [" + ", ".join(f"({c}, {t})" for c, t in pairs) + "]")
    L.append("def unprobed : List (Nat × Nat) := [" + ", ".join(f"({c}, {t})" for c, t in unprobed) + "]")
    L.append(f"def algRSAMD5 : Nat := {int(dns.dnssectypes.Algorithm.RSAMD5)}")
    L.append(f"def typeNS : Nat := {int(dns.rdatatype.NS)}")
    L.append(f"def typeDS : Nat := {int(dns.rdatatype.DS)}")
    L.append(f"def typeRRSIG : Nat := {int(dns.rdatatype.RRSIG)}")
    L.append(f"def typeNSEC : Nat := {int(dns.rdatatype.NSEC)}")
    L.append(f"def typeZONEMD : Nat := {int(dns.rdatatype.ZONEMD)}")
    import dns.zone
    L.append("def zonemdHashes : List Nat := [" + ", ".join(str(int(k)) for k in sorted(dns.zone._digest_hashers)) + "]")
    L.append("end ConstsC15")
    return "\n".join(L) + "\n"


if __name__ == "__main__":
    sys.stdout.write(generate())
